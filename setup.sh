#!/bin/sh
# Offline setup: nothing to build; verify the tools the checks need are present and the specs parse.
set -e
cd "$(dirname "$0")"
command -v java >/dev/null
test -f /opt/veriftools/tla/tla2tools.jar
/venv/bin/python -c "import sys; sys.path.insert(0,'/repo'); import geomdl"
mkdir -p evidence
echo "setup ok"
