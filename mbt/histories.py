"""Replay of Geomdl.tla histories (sequences of public calls) into real geomdl objects."""
import contextlib, io
from .core import fr, frv, fl
from .adapter import build, project, same_def


def _quiet(fn, *a, **k):
    buf = io.StringIO()
    with contextlib.redirect_stdout(buf):
        return fn(*a, **k), buf.getvalue()


def apply_step(obj, st, via, alt=False):
    """Apply one spec step to a geomdl object.  Returns a dict describing what the call did
    (raised: exception class name or None, printed: text printed by the wrapper)."""
    from geomdl import operations
    from geomdl.exceptions import GeomdlException
    a = st["a"]
    pd = obj.pdimension
    info = {"raised": None, "printed": ""}
    if a in ("insert", "remove", "remove_multi"):
        if a in ("insert", "remove_multi"):
            prm = [None if p == [] else float(fr(p)) for p in st["prm"]]
            num = list(st["num"])
        else:
            prm = [None] * pd
            num = [0] * pd
            prm[st["d"] - 1] = float(fr(st["u"]))
            num[st["d"] - 1] = st["r"]
        opfn = operations.insert_knot if a == "insert" else operations.remove_knot
        if alt:
            # the same arguments written differently: tuples, and Python ints for integral parameter values
            prm = tuple(None if q is None else (int(q) if float(q).is_integer() else q) for q in prm)
            num = tuple(num)
        if via == "operations":
            try:
                _quiet(opfn, obj, prm, num)
            except GeomdlException as e:
                info["raised"] = "GeomdlException"
        else:
            meth = obj.insert_knot if a == "insert" else obj.remove_knot
            # (a count of one is the documented default of the method wrappers: it is left out)
            if pd == 1:
                _, out = _quiet(meth, prm[0], num=num[0]) if num[0] != 1 else _quiet(meth, prm[0])
            else:
                names = "uvw"[:pd]
                kw = {}
                for d in range(pd):
                    if prm[d] is not None:
                        kw[names[d]] = prm[d]
                        if num[d] != 1:
                            kw["num_" + names[d]] = num[d]
                _, out = _quiet(meth, **kw)
            info["printed"] = out
    elif a == "refine":
        _quiet(operations.refine_knotvector, obj, tuple(st["dens"]) if alt else list(st["dens"]))
    elif a == "refine_helper":
        from geomdl import helpers
        cpts = obj.ctrlptsw if obj.rational else obj.ctrlpts
        new_cpts, new_kv = helpers.knot_refinement(obj.degree, obj.knotvector, cpts, knot_list=[float(fr(x)) for x in st["kl"]],
                                                   add_knot_list=[float(fr(x)) for x in st["add"]], density=st["dens"])
        obj.set_ctrlpts(new_cpts)
        obj.knotvector = new_kv
    elif a == "shrink_ctrlpts":
        obj.ctrlpts = [[float(x) for x in frv(p)] for p in st["P"]]
    elif a == "set_ctrlpts":
        obj.ctrlpts = [[float(x) for x in frv(p)] for p in st["P"]]
    elif a in ("set_weights", "scale_weights"):
        obj.weights = [float(fr(w)) for w in st["W"]]
    elif a == "set_ctrlptsw":
        obj.ctrlptsw = [[float(x) for x in frv(p)] for p in st["Pw"]]
    elif a == "edit_ctrlptsw":
        pw = obj.ctrlptsw
        pw[st["i"] - 1] = [float(x) for x in frv(st["pt"])]
        obj.ctrlptsw = pw
    elif a == "edit_ctrlpts":
        q = obj.ctrlpts
        q[st["i"] - 1] = [float(x) for x in frv(st["pt"])]
        obj.ctrlpts = q
    elif a == "fork":
        import copy
        other = copy.deepcopy(obj)
        if st["keep"] == "copy":        # the history continues on the copy, the original is edited
            obj.__dict__, other.__dict__ = other.__dict__, obj.__dict__
        _ = other.ctrlptsw, other.ctrlpts
        other.weights = [float(fr(w)) for w in st["W"]]
        info["fork"] = {"weights": read_view(other, "weights"), "ctrlpts": read_view(other, "ctrlpts"),
                        "expected_weights": [float(fr(w)) for w in st["W"]],
                        "expected_ctrlpts": [[float(x) for x in frv(q)] for q in st["P"]]}
    elif a == "read":
        info["value"] = read_view(obj, st["v"])
    elif a == "reverse":
        obj.reverse()
    elif a == "transpose":
        obj.transpose()
    elif a == "flip":
        operations.flip(obj, inplace=True)
    elif a == "translate":
        operations.translate(obj, [float(fr(x)) for x in st["vec"]], inplace=True)
    elif a == "sample_size":
        obj.sample_size = st["n"]
    elif a == "sample_size_dir":
        setattr(obj, "sample_size_" + "uvw"[st["d"] - 1], st["n"])
    elif a == "scale":
        operations.scale(obj, float(fr(st["f"])), inplace=True)
    else:
        raise ValueError("unknown action " + a)
    return info


def read_view(obj, v):
    """call a public getter; returns a plain copy of what it returned"""
    import copy
    if v == "ctrlpts":
        return copy.deepcopy(list(obj.ctrlpts))
    if v == "weights":
        return copy.deepcopy(list(obj.weights))
    if v == "ctrlptsw":
        return copy.deepcopy(list(obj.ctrlptsw))
    if v == "evalpts":
        return copy.deepcopy(list(obj.evalpts))
    if v == "bbox":
        return copy.deepcopy([list(x) for x in obj.bbox])
    if v == "ctrlpts2d":
        return copy.deepcopy([list(r) for r in obj.ctrlpts2d])
    if v == "tess":
        obj.tessellate()
        return [[list(x.data) for x in obj.vertices], [list(f.vertex_ids) for f in obj.faces]]
    if v == "sample_size":
        ss = obj.sample_size
        return [ss] if isinstance(ss, int) else list(ss)
    raise ValueError("unknown view " + v)


SCALE_FREE = {"insert", "remove", "remove_multi", "refine", "refine_helper", "reverse", "transpose", "flip", "read", "sample_size", "sample_size_dir"}


def replay_history(sh0, hist, via, conj=None, alt_repr=False, kv_scale=None):
    """conj = s: the history is replayed on the object scaled by s (a power of two, exact in binary floating point) and the result is
    scaled back by 1/s - the operations of SCALE_FREE commute with uniform scaling, so the outcome must be the same definition.
    Shows whether an operation treats very small / very large coordinates differently."""
    from geomdl import operations
    if kv_scale is not None:
        # the same shape on the knot range [0, 1/kv_scale] (kept as it is), every parameter of the history mapped accordingly
        if any(st["a"] not in ("insert", "remove", "remove_multi", "refine", "read") for st in hist):
            raise ValueError("history not replayable on a scaled knot range")
        sh0 = dict(sh0, kv=[[[k[0], k[1] * kv_scale] for k in U] for U in sh0["kv"]])
        hist = [dict(st, **({"prm": [[] if q == [] else [q[0], q[1] * kv_scale] for q in st["prm"]]} if "prm" in st else {}),
                     **({"u": [st["u"][0], st["u"][1] * kv_scale]} if "u" in st else {})) for st in hist]
        obj = build(sh0, normalize_kv=False)
    else:
        obj = build(sh0, alt_repr=alt_repr)
    if conj is not None:
        if any(st["a"] not in SCALE_FREE for st in hist):
            raise ValueError("history carries coordinates: not replayable under scaling")
        operations.scale(obj, conj, inplace=True)
    infos = []
    for st in hist:
        infos.append(apply_step(obj, st, via, alt=alt_repr))
    if conj is not None:
        operations.scale(obj, 1.0 / conj, inplace=True)
    return obj, infos
