"""code -> spec: random drivers run histories on real geomdl objects, record every public call with the projected definition
after it, and TLC validates the traces against the actions of the specification (spec/Trace_Geomdl.tla)."""
import os
import json, os, random, shutil, tempfile
from fractions import Fraction
from . import core
from .adapter import build, project_snapped
from .core import rat

W = [Fraction(1), Fraction(2), Fraction(1, 2)]
KNOTS = [Fraction(k, 4) for k in (1, 2, 3)]
PARAMS = [Fraction(k, 8) for k in range(1, 8)]


def rand_kv(rng, p, max_interior):
    n_int = rng.randint(0, max_interior)
    interior = sorted(rng.choice(KNOTS) for _ in range(n_int))
    # multiplicity at most p
    out = []
    for k in interior:
        if out.count(k) < p:
            out.append(k)
    return [Fraction(0)] * (p + 1) + out + [Fraction(1)] * (p + 1)


def rand_shape(rng, pd=None):
    pd = pd or rng.choice([1, 1, 2, 2, 3])
    maxp = {1: 3, 2: 2, 3: 2}[pd]
    deg = [rng.randint(1, maxp) for _ in range(pd)]
    kv = [rand_kv(rng, p, {1: 3, 2: 2, 3: 1}[pd]) for p in deg]
    size = [len(U) - p - 1 for U, p in zip(kv, deg)]
    rat_ = rng.random() < 0.5
    dim = 2 if (pd == 1 and rng.random() < 0.5) else 3
    n = 1
    for s in size:
        n *= s
    P = []
    for i in range(n):
        pt = [Fraction(rng.randint(-5, 5)) for _ in range(dim)]
        if rat_:
            w = rng.choice(W)
            pt = [x * w for x in pt] + [w]
        P.append(pt)
    return {"deg": deg, "kv": [[rat(k) for k in U] for U in kv], "size": size, "rat": rat_, "P": [[rat(x) for x in p] for p in P]}


def mult(obj, d, u):
    return sum(1 for k in obj._knot_vector[d] if abs(k - float(u)) < 1e-12)


def run_history(rng, sh, nsteps):
    from geomdl import operations
    from geomdl.exceptions import GeomdlException
    obj = build(sh)
    pd = len(sh["deg"])
    ev = []
    removable = []      # (direction index, knot, copies that can still be removed exactly)
    for _ in range(nsteps):
        acts = ["insert", "insert", "insert", "refine", "translate", "scale", "scale_weights", "read"]
        if removable:
            acts += ["remove", "remove", "remove"]
        if pd == 1:
            acts.append("reverse")
        if pd == 2:
            acts += ["transpose", "flip"]
        a = rng.choice(acts)
        e = {"a": a}
        if a == "insert":
            prm, num = [[] for _ in range(pd)], [0] * pd
            dirs = [d for d in range(pd) if rng.random() < (0.7 if pd > 1 else 1.0)] or [rng.randrange(pd)]
            for d in dirs:
                u = rng.choice(PARAMS)
                room = obj._degree[d] - mult(obj, d, u)
                r = rng.randint(1, max(1, room)) if rng.random() < 0.9 else room + 1
                prm[d], num[d] = rat(u), r
            e.update(prm=prm, num=num)
            try:
                operations.insert_knot(obj, [None if p == [] else p[0] / p[1] for p in prm], num)
                e["rejected"] = False
                if len(dirs) == 1:
                    removable.append([dirs[0], Fraction(*prm[dirs[0]]), num[dirs[0]]])
                else:
                    for d in dirs:
                        removable.append([d, Fraction(*prm[d]), num[d]])
            except GeomdlException:
                e["rejected"] = True
        elif a == "remove":
            i = rng.randrange(len(removable))
            d, u, cnt = removable[i]
            r = rng.randint(1, cnt)
            e.update(d=d + 1, u=rat(u), r=r)
            prm, num = [None] * pd, [0] * pd
            prm[d], num[d] = float(u), r
            operations.remove_knot(obj, prm, num)
            if r == cnt:
                removable.pop(i)
            else:
                removable[i][2] -= r
        elif a == "refine":
            d = rng.randrange(pd)
            # keep the objects small: refine only directions with few control points
            if obj._control_points_size[d] > 6:
                e = {"a": "read"}
                _ = obj.ctrlpts
            else:
                dens = [1 if k == d else 0 for k in range(pd)]
                e.update(dens=dens)
                operations.refine_knotvector(obj, dens)
                removable = []
        elif a == "reverse":
            obj.reverse()
            removable = [[d, 1 - u, c] for d, u, c in removable]
        elif a == "transpose":
            obj.transpose()
            removable = [[1 - d, u, c] for d, u, c in removable]
        elif a == "flip":
            operations.flip(obj, inplace=True)
            removable = []
        elif a == "translate":
            vec = [rng.randint(-2, 2) for _ in range(obj.dimension)]
            e["vec"] = [rat(v) for v in vec]
            operations.translate(obj, [float(v) for v in vec], inplace=True)
        elif a == "scale":
            f = rng.choice([Fraction(2), Fraction(1, 2), Fraction(-1)])
            e["f"] = rat(f)
            operations.scale(obj, float(f), inplace=True)
        elif a == "scale_weights":
            if not obj.rational:
                e = {"a": "read"}
                _ = obj.evalpts if rng.random() < 0.3 else obj.bbox
            else:
                c = rng.choice([Fraction(2), Fraction(1, 2)])
                e["c"] = rat(c)
                obj.weights = [w * float(c) for w in obj.weights]
        elif a == "read":
            _ = rng.choice([lambda: obj.ctrlpts, lambda: obj.bbox, lambda: obj.evalpts])()
        e["post"] = project_snapped(obj)
        ev.append(e)
    return ev


def generate(seed, n_traces, nsteps, kinds=None):
    rng = random.Random(seed)
    traces = []
    for t in range(n_traces):
        sh = rand_shape(rng, None if kinds is None else rng.choice(kinds))
        try:
            ev = run_history(rng, sh, nsteps if len(sh["deg"]) == 1 else max(2, nsteps - 2))
            traces.append({"id": t + 1, "init": sh, "ev": ev, "error": None})
        except Exception as e:      # a valid history must not fail
            traces.append({"id": t + 1, "init": sh, "ev": [], "error": repr(e)[:300]})
    return traces


def validate(traces, timeout=1800):
    """returns (accepted ids, {id: mismatch record}, TLCResult)"""
    d = tempfile.mkdtemp(prefix="verif_trace_")
    path = os.path.join(d, "traces.json")
    with open(path, "w") as f:
        json.dump([{k: v for k, v in t.items() if k != "error"} for t in traces if t["ev"]], f)
    res = core.run_tlc("Trace_Geomdl", "Trace_Geomdl.cfg", env={"TRACE_FILE": path}, tags=("ACCEPT", "MISMATCH"), timeout=timeout)
    shutil.rmtree(d, ignore_errors=True)
    accepted = {c["tid"] for tag, c in res.cases if tag == "ACCEPT"}
    mism = {c["tid"]: c for tag, c in res.cases if tag == "MISMATCH"}
    return accepted, mism, res


ACTION_PROPERTY = {"insert": "C04", "refine": "C05", "remove": "C06", "scale_weights": "C09", "translate": "C10", "scale": "C10",
                   "reverse": "C12", "transpose": "C12", "flip": "C12", "read": "C12"}
ACTION_SITE = {"insert": "operations.insert_knot", "refine": "operations.refine_knotvector", "remove": "operations.remove_knot",
               "scale_weights": "NURBS.weights.setter", "translate": "operations.translate", "scale": "operations.scale", "reverse": "Curve.reverse",
               "transpose": "Surface.transpose", "flip": "operations.flip", "read": "getter"}


def _first_diff(exp, post):
    """name the first field of the recorded post-state that differs from the spec's expectation (rationals as [n, d])"""
    for f in ("deg", "size", "rat"):
        if exp[f] != post[f]:
            return f
    for d, (a, b) in enumerate(zip(exp["kv"], post["kv"])):
        if len(a) != len(b):
            return "len(kv[%d])" % d
        for i, (x, y) in enumerate(zip(a, b)):
            if x[1] <= 10000 and list(x) != list(y):
                return "kv[%d][%d]" % (d, i)
    if len(exp["P"]) != len(post["P"]):
        return "len(P)"
    for i, (a, b) in enumerate(zip(exp["P"], post["P"])):
        for k, (x, y) in enumerate(zip(a, b)):
            if x[1] <= 10000 and list(x) != list(y):
                return "P[%d][%d]" % (i, k)
    return "enabling condition / rejection flag"


def trace_check(ctx, n_traces, nsteps, kinds=None):
    """Run the random drivers, validate with TLC, and report the rejected traces whose failing event belongs to ctx.prop."""
    if os.environ.get("VERIF_SKIP_TRACE") == "1":      # diagnostic campaigns only (tools/mutants.py); never set by a registered command
        ctx.extra["trace_validation"] = "skipped (VERIF_SKIP_TRACE)"
        return
    traces = generate(ctx.seed, n_traces, nsteps, kinds)
    nev = sum(len(t["ev"]) for t in traces)
    accepted, mism, res = validate(traces)
    if res.error and not mism:
        raise core.MachineryError("Trace_Geomdl failed: %s\n%s" % (res.error, res.stdout_tail[-2000:]))
    ctx.add_tlc(res, "trace validation of %d random histories (%d events) recorded from real objects" % (len(traces), nev))
    byid = {t["id"]: t for t in traces}
    mine = other = 0
    for t in traces:
        if t["error"]:
            # the driver itself failed: a valid call raised; attribute to C12 (any history must work) unless we can do better
            if ctx.prop == "C12":
                ctx.full = {"trace": t}
                ctx.violate("random_history", ["trace", "raises"], {"init": t["init"]["deg"]}, {"exception": t["error"]})
            continue
        if t["id"] in accepted:
            continue
        m = mism.get(t["id"])
        if m is None:
            raise core.MachineryError("trace %d neither accepted nor explained" % t["id"])
        ev = t["ev"][m["l"] - 1]
        prop = ACTION_PROPERTY.get(ev["a"], "C12")
        if prop != ctx.prop:
            other += 1
            continue
        mine += 1
        field = _first_diff(m["expected"], ev["post"]) if m["consistent"] else "enabling condition / rejection flag"
        ctx.full = {"trace": {"id": t["id"], "init": t["init"], "ev": t["ev"][:m["l"]]}}
        pd = len(t["init"]["deg"])
        ctx.violate(ACTION_SITE.get(ev["a"], ev["a"]), ["trace", "kind=%s" % ("curve", "surface", "volume")[pd - 1], "event=%d" % m["l"]],
                    {"init_deg": t["init"]["deg"], "history": [{k: v for k, v in e.items() if k != "post"} for e in t["ev"][:m["l"]]]},
                    {"first_differing_field": field})
    ctx.traces += len(accepted)
    ctx.extra["trace_validation"] = {"traces": len(traces), "events": nev, "accepted": len(accepted), "rejected_for_this_property": mine,
                                     "rejected_at_other_properties_actions": other}


def replay_trace(ctx, full):
    """re-run a stored failing trace prefix: regenerate the recorded calls on a fresh object and validate again"""
    t = full["trace"]
    accepted, mism, res = validate([dict(t, error=None)])
    if t["id"] not in accepted:
        m = mism.get(t["id"], {"l": len(t["ev"]), "consistent": False, "expected": None})
        ev = t["ev"][m["l"] - 1]
        ctx.violate(ACTION_SITE.get(ev["a"], ev["a"]), ["trace"], {"history": [{k: v for k, v in e.items() if k != "post"} for e in t["ev"]]},
                    {"note": "recorded trace is still rejected by the specification"})
