"""Demonstration that the trace specification is bound to the recorded executions:
  python -m mbt.selftest     (exit 0 iff: honest traces accepted, a corrupted field rejected, a dropped event rejected)"""
import copy, sys
from . import core, tracedrv


def main():
    traces = tracedrv.generate(7, 12, 5)
    traces = [t for t in traces if t["ev"]]
    acc, mis, res = tracedrv.validate(traces)
    ok1 = len(acc) == len(traces)
    print("honest traces: %d/%d accepted" % (len(acc), len(traces)))
    # (1) corrupt one logged coordinate of one event
    bad = copy.deepcopy(traces)
    tgt = next(t for t in bad if any(e["a"] == "insert" and not e.get("rejected") for e in t["ev"]))
    k = next(i for i, e in enumerate(tgt["ev"]) if e["a"] == "insert" and not e.get("rejected"))
    x = tgt["ev"][k]["post"]["P"][0][0]
    tgt["ev"][k]["post"]["P"][0][0] = [x[0] * 64 + x[1], x[1] * 64] if x[1] * 64 <= 10000 else [x[0] + x[1], x[1]]
    acc2, mis2, _ = tracedrv.validate(bad)
    ok2 = tgt["id"] not in acc2 and mis2.get(tgt["id"], {}).get("l") == k + 1
    print("corrupted field in trace %d event %d: %s" % (tgt["id"], k + 1, "rejected at that event" if ok2 else "NOT rejected"))
    # (2) drop one (state-changing) event: the next recorded post-state no longer follows from the previous one
    bad = copy.deepcopy(traces)
    tgt = next(t for t in bad if any(e["a"] == "insert" and not e.get("rejected") for e in t["ev"][:-1]))
    k = next(i for i, e in enumerate(tgt["ev"][:-1]) if e["a"] == "insert" and not e.get("rejected"))
    del tgt["ev"][k]
    acc3, mis3, _ = tracedrv.validate(bad)
    ok3 = tgt["id"] not in acc3
    print("dropped event in trace %d: %s" % (tgt["id"], "rejected" if ok3 else "NOT rejected"))
    sys.exit(0 if (ok1 and ok2 and ok3) else 1)


if __name__ == "__main__":
    main()
