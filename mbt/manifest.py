"""Regenerates /verif/MANIFEST.json from the table below:  /venv/bin/python -m mbt.manifest"""
import json, os
from .core import VERIF

BASE = "cd /repo && /venv/bin/python -m pytest -ra -q -p no:cacheprovider --timeout=900 --continue-on-collection-errors"
TRUST = ("TLC 1.8 evaluating the TLA+ definitions in spec/ exactly over rationals; the thin adapter in mbt/ (float<->rational "
         "conversion, 1e-9 relative comparison); bounded lattice stated in DESIGN.md 3.2 and in the evidence file")

CLAIMED = {
    "C03": dict(
        text="TLC enumerates every (degree, knot vector, parameter) of a bounded lattice, checks the identities of the property on the "
             "specification itself (span uniqueness, linear = binary = definition, A2.2 = Cox-de Boor, partition of unity, derivative sums), "
             "and every transition is replayed into geomdl.helpers / geomdl.knotvector with the exact expected values.",
        technique="TLA+ spec (Knots, Basis, MC_C03) model-checked exhaustively with TLC; spec->code replay of every transition",
        design="4 C03"),
    "C01": dict(
        text="TLC enumerates a lattice of curves, surfaces and volumes (rational or not; clamped, unclamped and non-normalised knot vectors) "
             "with every parameter tuple of knots/span samples, sample-size tuples and a parameter list; the expected points are the "
             "tensor-product Cox-de Boor definition evaluated exactly; every transition is replayed through evaluate_single, evaluate_list, "
             "derivatives(order=0), the evaluator called directly and the sampled grid (size, order, corners).",
        technique="TLA+ spec (Shape, Lattice, MC_C01) model-checked exhaustively with TLC; spec->code replay of every transition",
        design="4 C01"),
    "C02": dict(
        text="TLC computes the exact derivative tables (derivative of the Cox-de Boor definition, Leibniz rule for rational shapes) for every "
             "(shape, parameter, order <= degree+2) of the lattice, proves the A3.3/A3.4 and A3.7/A3.8 transcriptions and the hodograph "
             "definitions equal to them, and every transition is replayed into both evaluator families, derivative_curve/surface, tangent and normal.",
        technique="TLA+ spec (Shape, Hodo, MC_C02) model-checked exhaustively with TLC; spec->code replay of every transition",
        design="4 C02"),
    "C04": dict(
        text="The Geomdl.tla state machine is explored over histories of insert_knot calls (single and multi-direction, admissible counts "
             "and over-insertion) on curves, surfaces and volumes; TLC checks on every transition that the shape function is unchanged "
             "(exact, deg+1 samples per span and direction), the structural claims and the rejection rule; every reachable state is replayed "
             "into real objects through operations.insert_knot and the object methods with the whole definition compared; in the other direction "
             "random histories on larger objects and the insert_knot calls of the repository's own tests are recorded and validated by TLC "
             "against the same actions (Trace_Geomdl).",
        technique="TLA+ state machine (Ops, Geomdl, MC_C04) with action properties checked by TLC; spec->code replay of every history + code->spec trace validation",
        design="4 C04"),
    "C05": dict(
        text="Histories of refine_knotvector calls (all direction subsets, densities, depth 2 on curves) and helper-level refinement with "
             "explicit/additional knot lists; TLC checks shape preservation and the bisection/multiplicity structure on every transition; "
             "every state is replayed into real objects; random histories and the repository's own refine calls are validated as traces.",
        technique="TLA+ state machine (Ops, Geomdl, MC_C05) with action properties checked by TLC; spec->code replay of every history + code->spec trace validation",
        design="4 C05"),
    "C06": dict(
        text="Histories (insert | refine) ; remove in which removal is enabled only for exactly removable knots (definition: the reduced "
             "shape re-inserts to the current one). TLC checks that the book-faithful A5.8 transcription inverts A5.1, passes its own "
             "test and preserves the function; every history is replayed through operations.remove_knot and the object methods; random insert/remove histories "
             "(strict) and the repository's own remove_knot calls (non-strict: forced removal is structural) are validated as traces.",
        technique="TLA+ state machine (Ops incl. A5.8 transcription, Geomdl, MC_C06) checked by TLC; spec->code replay of every history + code->spec trace validation",
        design="4 C06"),
    "C07": dict(
        text="For every shape of the lattice and every interior split parameter (inside a span or on a knot of any multiplicity), both domain "
             "ends and every decomposition direction, TLC checks that the specified pieces coincide with the original under the affine map "
             "of their domain, one Bezier piece per non-empty span (pair), and the replay compares the definitions of the pieces returned by "
             "split_curve/split_surface_u/v/decompose_* exactly, plus rejection at domain ends and that the input is unmodified.",
        technique="TLA+ spec (Ops.SplitDir/DecomposeDir, MC_C07) model-checked exhaustively with TLC; spec->code replay of every transition",
        design="4 C07"),
    "C08": dict(
        text="TLC checks that Eq 5.36 preserves the Bezier curve and that the Eqs 5.41/5.42 transcription inverts it for every degree, "
             "and the expected control points are replayed into helpers.degree_elevation / degree_reduction (points and rows of points, "
             "homogeneous or not, rejected inputs).",
        technique="TLA+ spec (Degree, MC_C08) model-checked exhaustively with TLC; spec->code replay of every transition",
        design="4 C08"),
    "C09": dict(
        text="All histories (depth 3-4) of the three control-point setters, weight scaling and reads on rational curves, surfaces and volumes: "
             "TLC checks view consistency in every state and that scaling weights moves no point; every history is replayed and the three "
             "views are read back in two orders; helper conversions, B-spline<->NURBS conversion and the weighted grid as pure cases.",
        technique="TLA+ state machine (Geomdl view actions, MC_C09, MC_C09b) checked by TLC; spec->code replay of every history",
        design="4 C09"),
    "C12": dict(
        text="TLC enumerates every interleaving (depth 3-4) of 12 public mutators and 6 readers on rational/non-rational curves, surfaces and a "
             "volume, and of container reads/additions/element edits; after each history every derived view of the driven object is "
             "compared with a twin freshly built from the spec's definition; deep-copy independence is checked in both directions; the "
             "CacheDiscipline abstraction (Populates/Effect tables probed from the working tree) is explored completely, i.e. over histories "
             "of any length; long random histories are validated as traces.",
        technique="TLA+ state machine (Geomdl, MC_C12, MC_C12c, CacheDiscipline) explored by TLC; replay of every history against a fresh twin + trace validation",
        design="4 C12"),
    "C10": dict(
        text="For every shape and container of the lattice, translation vector, scale factor, axis and rational rotation angle, with and "
             "without inplace, TLC checks that every evaluated point moves as the map applied to the original point (weights unchanged) and the "
             "replay compares the returned objects' definitions, identity semantics, untouched inputs and the re-sampled points.",
        technique="TLA+ spec (Ops affine maps, MC_C10) model-checked exhaustively with TLC; spec->code replay of every transition",
        design="4 C10"),
    "C19": dict(
        text="For every shape, every single-component perturbation (each coordinate, weight, interior knot, degree) and the kind/rationality "
             "twins, == and != are evaluated both ways and compared with the definition of equality; reflexivity and deep copies included.",
        technique="TLA+ spec (MC_C19, EqDef) model-checked exhaustively with TLC; spec->code replay of every pair",
        design="4 C19"),
    "C13": dict(
        text="On surfaces and volumes with pairwise different sizes TLC checks that construct(extract) along the matching direction is the "
             "identity, that managers, the 2-D view and the row-order flips address v + size_v (u + size_u w), that transposition swaps u and v "
             "and that a sweep has the input and its translate as opposite boundary sections; the expected definitions are replayed into "
             "construct.*, sweeping.sweep_vector, operations.transpose/flip, Surface.ctrlpts2d, control_points managers and compatibility flips.",
        technique="TLA+ spec (Layout, MC_C13) model-checked exhaustively with TLC; spec->code replay of every transition",
        design="4 C13"),
    "C18": dict(
        text="For every shape and parameter of the lattice TLC produces an exact convex-combination certificate over exactly the active control "
             "points (lambda_i = N_i w_i / sum N_j w_j >= 0, sum 1) and shows the point inside the bounding box; the replay checks the "
             "certificate against the code's own control points and evaluation, bbox, find_ctrlpts, clamped end points and the length bounds.",
        technique="TLA+ spec (MC_C18, Lambda certificate) model-checked exhaustively with TLC; spec->code replay of every transition",
        design="4 C18"),
    "C20": dict(
        text="All ray pairs on {0,1,2}^2 and {0,1}^3 (status and exact parameters), all simple lattice polygons against all off-boundary "
             "half-integer query points (crossing definition with a generic ray), all point sets for the hull (strictly convex, CCW, contains "
             "all points), orientation test, voxel grids (closed-box membership of exact samples) and active control point lookup.",
        technique="TLA+ spec (Planar, MC_C20, MC_C20b) model-checked exhaustively with TLC; spec->code replay of every transition",
        design="4 C20"),
    "C16": dict(
        text="For every non-singular 2x2 matrix over -2..2, a 3x3 family and hand-picked 4x4/5x5 matrices (with and without needed row swaps, "
             "diagonally dominant, zero leading minors) TLC computes the exact determinant, inverse and solutions and checks the defining "
             "equations; all call sequences up to length 2-3 over identity/pivot/inverse/determinant/lu_factor are replayed in one "
             "interpreter (history independence); vector/matrix helpers as a table.",
        technique="TLA+ spec (Linalg incl. matrix_pivot transcription, MC_C16) model-checked exhaustively with TLC; spec->code replay",
        design="4 C16"),
    "C11": dict(
        text="On data sets with rational consecutive distances TLC computes the exact chord-length / centripetal parameters, the exact "
             "averaged knot vectors (Eq 9.8, 9.68/9.69) and collocation matrices, and checks Schoenberg-Whitney; the replay runs "
             "interpolate_curve/surface and approximate_curve/surface and checks degree, sizes, knot vector and the defining conditions "
             "(sum N_i(u_k) P_i = Q_k; end/corner points; normal equations N^T (N P - Q) = 0) on the returned control points.",
        technique="TLA+ spec (Fitting, MC_C11) model-checked exhaustively with TLC; spec->code replay with condition checking",
        design="4 C11"),
    "C15": dict(
        text="TLC proves the specified grid->triangle mesh valid (in-range consecutive ids, CCW orientation, exact tiling by signed areas, edge "
             "incidence 2/1, Euler characteristic 1) for all sample sizes and admissible spacings, and classifies cells against polygonal trims; "
             "every mesh produced by geomdl is sent back to TLC and validated against the same ValidTriangulation predicate (trace validation); "
             "vertex parameters/positions, quad meshes, trims, container offsets and OBJ/OFF/STL(ascii, binary) exports are replayed.",
        technique="TLA+ spec (Mesh, MC_C15) model-checked with TLC; code->spec trace validation of every recorded mesh (Trace_C15) + replay",
        design="4 C15"),
    "C14": dict(
        text="For shapes with pairwise different sizes and containers of 1..3 shapes the spec gives the abstract content of the JSON, smesh, "
             "vmesh, txt (1-D/2-D) and csv files (row/column ordering included) and proves the mesh ordering invertible; the replay exports "
             "with geomdl, tokenises the real file against the abstract file, imports it again and compares degrees, knot vectors, sizes, "
             "points, weights, sampling density and trim curves.",
        technique="TLA+ spec (Exchange, MC_C14) model-checked exhaustively with TLC; spec->code replay through real files",
        design="4 C14"),
    "C17": dict(
        text="TLC proves the affine invariance of the definition (knot range aU+b, parameters au+b, derivatives scaled by a^-k) on every query "
             "of the lattice, explores all interleavings of the process-pool model (result = sequential map, termination) and the LRU-memo "
             "model for capacities 0/1/2/16; the replay evaluates every query under {linear, binary} span search x {normalised, three raw "
             "knot ranges, raw input normalised}, both evaluator families, pools of 1/2/4/8 processes and one fresh interpreter per cache size.",
        technique="TLA+ specs (MC_C17 affine invariance, Pool, Cache) model-checked with TLC; spec->code replay under the configuration product",
        design="4 C17"),
}

PENDING_REASON = "check not built yet (work in progress, see DESIGN.md section 8 build order)"
NOT_APPLICABLE = {}


def main():
    props = [json.loads(l) for l in open(os.path.join(VERIF, "properties.jsonl"))]
    checks, na = [], []
    for p in props:
        pid = p["id"]
        if pid in CLAIMED:
            c = CLAIMED[pid]
            checks.append({
                "property_id": pid,
                "quick_cmd": "./check %s --tier quick" % pid,
                "thorough_cmd": "./check %s --tier thorough" % pid,
                "evidence_file": "/verif/evidence/%s.json" % pid,
                "replay_cmd_template": "./check %s --replay {path}" % pid,
                "engine": "tlc-mbt",
                "level_claimed": {"category": "model_checking", "text": c["text"], "design_ref": "DESIGN.md " + c["design"]},
                "level_note": c.get("note", TRUST),
                "technique": c["technique"],
            })
        else:
            na.append({"property_id": pid, "reason": NOT_APPLICABLE.get(pid, PENDING_REASON)})
    m = {
        "version": 1,
        "setup_cmd": "cd /verif && ./setup.sh",
        "hooks": {
            "guard": "GEOMDL_VERIF_TRACE",
            "enable": "no source hooks are needed: geomdl is a sequential library, the linearisation point of every action is the return of "
                      "the public call; checks import geomdl from /repo's working tree (PYTHONPATH=/repo) and wrap the public API at run time",
            "baseline_off_cmd": BASE,
            "source_commits": [],
            "add_only": True,
        },
        "engines": [{"name": "tlc-mbt", "path": "/verif/check",
                     "serves_properties": sorted(CLAIMED),
                     "kind_free_text": "explicit TLA+ specification (spec/*.tla) checked with TLC; behaviours emitted by TLC are replayed into the "
                                       "real geomdl objects and traces recorded from geomdl are validated by TLC against the same actions"}],
        "checks": checks,
        "notes": "see DESIGN.md; known findings in known_findings.json",
        "not_applicable": na,
    }
    with open(os.path.join(VERIF, "MANIFEST.json"), "w") as f:
        json.dump(m, f, indent=1)
    print("claimed:", sorted(CLAIMED), "pending:", len(na))


if __name__ == "__main__":
    main()
