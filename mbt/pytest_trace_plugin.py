"""pytest plugin (loaded with `-p mbt.pytest_trace_plugin`) that records the repository's own test-suite as traces:
every call of operations.insert_knot / remove_knot / refine_knotvector made by the tests (directly or through the object
methods) is logged with its arguments and the projected definition before and after the call.
Enabled only when GEOMDL_VERIF_TRACE names the output file; nothing in /repo is modified."""
import json, os

_OUT = os.environ.get("GEOMDL_VERIF_TRACE")
_events = []
_depth = [0]


def _snapdef(o):
    from mbt.adapter import project_snapped
    try:
        return project_snapped(o)
    except Exception:
        return None


def _wrap(mod, name, action):
    orig = getattr(mod, name)

    def wrapper(obj, param, num=None, *a, **k):
        if _depth[0] > 0 or not hasattr(obj, "_control_points"):
            return orig(obj, param, num, *a, **k) if num is not None else orig(obj, param, *a, **k)
        _depth[0] += 1
        pre = _snapdef(obj)
        rec = {"a": action, "pre": pre, "raised": None}
        try:
            if action == "refine":
                rec["dens"] = list(param)
            else:
                rec["prm"] = [None if p is None else float(p) for p in param]
                rec["num"] = list(num)
            return orig(obj, param, num, *a, **k) if num is not None else orig(obj, param, *a, **k)
        except Exception as e:
            rec["raised"] = type(e).__name__
            raise
        finally:
            _depth[0] -= 1
            rec["post"] = _snapdef(obj)
            rec["test"] = os.environ.get("PYTEST_CURRENT_TEST", "")
            _events.append(rec)
    wrapper.__wrapped__ = orig
    setattr(mod, name, wrapper)


def pytest_configure(config):
    if not _OUT:
        return
    from geomdl import operations
    _wrap(operations, "insert_knot", "insert")
    _wrap(operations, "remove_knot", "remove")
    _wrap(operations, "refine_knotvector", "refine")


def pytest_sessionfinish(session, exitstatus):
    if _OUT:
        with open(_OUT, "w") as f:
            json.dump(_events, f)
