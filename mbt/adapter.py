"""Thin adapter between the spec's abstract `def` records and real geomdl objects.
Contains no spline mathematics: only construction, projection of attributes and number conversion."""
from fractions import Fraction
from .core import fr, frv, fl, rat, snap


def shape_floats(sh):
    return dict(deg=list(sh["deg"]), kv=[[n / d for n, d in U] for U in sh["kv"]], size=list(sh["size"]), rat=sh["rat"],
                P=[[n / d for n, d in pt] for pt in sh["P"]])


def _as_alt(x):
    """the same numbers in another valid representation: tuples instead of lists, Python ints where the value is integral"""
    if isinstance(x, (list, tuple)):
        return tuple(_as_alt(v) for v in x)
    return int(x) if float(x).is_integer() else x


def build(sh, normalize_kv=None, span_func=None, cls=None, evaluator=None, share_kv=False, alt_repr=False, edit_back=False, by_setters=False, **extra):
    """spec shape (JSON form) -> geomdl object.  Raw (non-[0,1]) knot vectors are kept raw unless normalize_kv=True.
    share_kv: directions with equal knot vectors are given the very same list object (as a caller writing
    ``s.knotvector_u = kv; s.knotvector_v = kv`` does)."""
    from geomdl import BSpline, NURBS
    f = shape_floats(sh)
    pd = len(f["deg"])
    mod = NURBS if f["rat"] else BSpline
    kw = {}
    if normalize_kv is None:
        normalize_kv = all(abs(U[0]) < 1e-12 and abs(U[-1] - 1.0) < 1e-12 for U in f["kv"])
    kw["normalize_kv"] = normalize_kv
    if span_func is not None:
        kw["find_span_func"] = span_func
    kw.update(extra)
    C = cls or (mod.Curve, mod.Surface, mod.Volume)[pd - 1]
    o = C(**kw)
    _handed = []
    if alt_repr:
        # (tuples of ints / floats for control points and knot vectors: an equally valid way to write the same input)
        f = dict(f, P=[_as_alt(q) for q in f["P"]], kv=[_as_alt(U) for U in f["kv"]])
    if share_kv:
        for d in range(1, pd):
            for e in range(d):
                if f["kv"][d] == f["kv"][e]:
                    f["kv"][d] = f["kv"][e]
    if pd == 1:
        o.degree = f["deg"][0]
        _P = tuple(f["P"]) if alt_repr else [list(p) for p in f["P"]]
        _U = [f["kv"][0] if alt_repr else list(f["kv"][0])]
        o.set_ctrlpts(_P)
        o.knotvector = _U[0]
    elif pd == 2:
        o.degree_u, o.degree_v = f["deg"]
        _P = tuple(f["P"]) if alt_repr else [list(p) for p in f["P"]]
        _U = [f["kv"][0], f["kv"][1]] if (share_kv or alt_repr) else [list(f["kv"][0]), list(f["kv"][1])]
        o.set_ctrlpts(_P, f["size"][0], f["size"][1])
        o.knotvector_u, o.knotvector_v = _U
    else:
        o.degree_u, o.degree_v, o.degree_w = f["deg"]
        _P = tuple(f["P"]) if alt_repr else [list(p) for p in f["P"]]
        _U = list(f["kv"]) if (share_kv or alt_repr) else [list(U) for U in f["kv"]]
        o.set_ctrlpts(_P, *f["size"])
        o.knotvector_u, o.knotvector_v, o.knotvector_w = _U
    if evaluator is not None:
        o.evaluator = evaluator
    if by_setters and f["rat"]:
        # and another: some other net with unit weights first, the getters used in between, then the weights, then the unweighted points
        W_ = [q[-1] for q in f["P"]]
        Pu_ = [[c / q[-1] for c in q[:-1]] for q in f["P"]]
        o.set_ctrlpts([[c + 1.0 + i for c in q] + [1.0] for i, q in enumerate(Pu_)], *f["size"])
        _ = list(o.weights), list(o.ctrlpts)
        o.weights = list(W_)
        o.ctrlpts = [list(q) for q in Pu_]
    if edit_back and f["rat"]:
        # another way to reach the same definition: the first weight is wrong at first (doubled), then corrected by the idiom
        # ``w = obj.weights; w[0] = ...; obj.weights = w`` (the list the getter returned is edited and assigned back)
        wrong = [list(q) for q in f["P"]]
        wrong[0] = [c * 2.0 for c in wrong[0]]
        o.set_ctrlpts(wrong, *f["size"])
        w_ = o.weights
        w_[0] = w_[0] / 2.0
        o.weights = w_
    if not alt_repr and not share_kv:
        _handed.append(_P)
        if normalize_kv:
            _handed.extend(_U)
    if not alt_repr and not share_kv:
        # The caller's buffers are overwritten after the object has been defined: an object that kept references to them instead of
        # its own copies changes now, and every later comparison shows it.  (Knot vectors handed to a non-normalising object are
        # kept by reference in geomdl as it stands - documented behaviour of that option - so they are left alone.)
        for q in _handed:
            for i in range(len(q)):
                q[i] = 9.0e9 if not isinstance(q[i], list) else q[i]
        for q in _handed:
            for r in q:
                if isinstance(r, list):
                    for i in range(len(r)):
                        r[i] = 9.0e9
    return o


def reassign_weights_from_scratch_list(o):
    """``o.weights = w`` with the current values from a list of the caller's, which is then overwritten: the object must have
    taken a copy.  (Not part of ``build``: it warms the caches of the object, which would hide defects that need cold caches.)"""
    if getattr(o, "rational", False):
        w_ = [float(x) for x in o.weights]
        o.weights = w_
        for i in range(len(w_)):
            w_[i] = 9.0e9


def project(o):
    """geomdl object -> float `def` read from the private attributes (no getter is called, caches untouched).
    Should a tree store its definition under other private names, the public getters are used instead."""
    try:
        return dict(deg=list(o._degree), kv=[list(U) for U in o._knot_vector], size=list(o._control_points_size),
                    rat=bool(o._rational), P=[list(p) for p in o._control_points])
    except AttributeError:
        pd = o.pdimension
        deg = [o.degree] if pd == 1 else list(o.degree)
        kv = [list(o.knotvector)] if pd == 1 else [list(U) for U in o.knotvector]
        size = [o.ctrlpts_size] if pd == 1 else [getattr(o, "ctrlpts_size_" + d) for d in "uvw"[:pd]]
        return dict(deg=deg, kv=kv, size=size, rat=bool(o.rational), P=[list(p) for p in (o.ctrlptsw if o.rational else o.ctrlpts)])


def project_snapped(o, D=10000):
    d = project(o)
    return dict(deg=d["deg"], kv=[[snap(x, D) for x in U] for U in d["kv"]], size=d["size"], rat=d["rat"],
                P=[[snap(x, D) for x in p] for p in d["P"]])


def same_def(obs, exp, tol=1e-9):
    """observed float def vs expected spec shape (JSON).  Returns None or the name of the first differing field."""
    from .core import close_seq
    e = shape_floats(exp)
    if list(obs["deg"]) != e["deg"]:
        return "deg"
    if list(obs["size"]) != e["size"]:
        return "size"
    if bool(obs["rat"]) != bool(e["rat"]):
        return "rat"
    if len(obs["kv"]) != len(e["kv"]):
        return "kv"
    for d, (a, b) in enumerate(zip(obs["kv"], e["kv"])):
        if not close_seq(list(a), b, tol):
            return "kv[%d]" % d
    if len(obs["P"]) != len(e["P"]):
        return "len(P)"
    for i, (a, b) in enumerate(zip(obs["P"], e["P"])):
        if not close_seq(list(a), b, tol):
            return "P[%d]" % i
    return None


def shape_key(sh):
    return (tuple(sh["deg"]), tuple(tuple(map(tuple, U)) for U in sh["kv"]), sh["rat"], len(sh["P"][0]))
