"""Shared machinery: TLC runner, exact/float comparison, verdicts, evidence, known findings."""
import hashlib, json, os, re, shutil, subprocess, sys, tempfile, time
from fractions import Fraction

VERIF = os.path.dirname(os.path.dirname(os.path.abspath(__file__)))
REPO = os.environ.get("VERIF_REPO", "/repo")
SPEC = os.path.join(VERIF, "spec")
TLA_CP = "/opt/veriftools/tla/tla2tools.jar:/opt/veriftools/tla/CommunityModules-deps.jar"
NCPU = os.cpu_count() or 4

if REPO not in sys.path:
    sys.path.insert(0, REPO)
os.environ.setdefault("PYTHONHASHSEED", "0")


class HangError(BaseException):
    """a replayed call into the library did not return within the per-case time limit"""


CASE_LIMIT_S = int(os.environ.get("VERIF_CASE_LIMIT_S", "300"))


def _alarm(signum, frame):
    raise HangError("no progress for %d s while replaying a case" % CASE_LIMIT_S)


def arm_watchdog():
    import signal
    try:
        signal.signal(signal.SIGALRM, _alarm)
        signal.alarm(CASE_LIMIT_S)
    except (ValueError, AttributeError):
        pass


def disarm_watchdog():
    import signal
    try:
        signal.alarm(0)
    except (ValueError, AttributeError):
        pass


class MachineryError(Exception):
    """Something in the verification machinery itself failed (exit 2, never a property verdict)."""


# ------------------------------------------------------------------ rationals
def fr(x):
    """[n, d] (as emitted by the spec) -> Fraction; nested lists are mapped recursively."""
    if isinstance(x, (list, tuple)):
        if len(x) == 2 and all(isinstance(t, int) and not isinstance(t, bool) for t in x) and x[1] > 0:
            return Fraction(x[0], x[1])
        return [fr(t) for t in x]
    return x


def is_rat(x):
    return isinstance(x, (list, tuple)) and len(x) == 2 and all(isinstance(t, int) and not isinstance(t, bool) for t in x) and x[1] > 0


def frv(x):
    """vector of rationals -> list of Fractions"""
    return [Fraction(t[0], t[1]) for t in x]


def fl(x):
    """Fraction / nested list of Fractions -> floats"""
    if isinstance(x, list):
        return [fl(t) for t in x]
    return float(x)


def rat(x):
    """Fraction -> [n, d]"""
    x = Fraction(x)
    return [x.numerator, x.denominator]


def close(a, e, tol=1e-9):
    """float a vs exact e (Fraction/int/float)."""
    try:
        a = float(a)
    except Exception:
        return False
    ef = float(e)
    if a != a:
        return False
    return abs(a - ef) <= tol * max(1.0, abs(ef))


def close_seq(a, e, tol=1e-9):
    """nested sequences of floats vs nested sequences of exact values, same shape required."""
    if isinstance(e, (list, tuple)):
        if not isinstance(a, (list, tuple)) or len(a) != len(e):
            return False
        return all(close_seq(x, y, tol) for x, y in zip(a, e))
    return close(a, e, tol)


def snap(x, D=10000):
    """float -> [n,d] with d <= D if the float is within 1e-9 of such a fraction, else the marker [0,0]."""
    if x != x or x in (float("inf"), float("-inf")) or abs(x) > 1e8:
        return [0, 0]          # not a lattice value (also keeps TLC's 32-bit integers safe)
    f = Fraction(x).limit_denominator(D)
    if abs(float(f) - x) <= 1e-9 * max(1.0, abs(x)) and abs(f.numerator) < 2 ** 30:
        return [f.numerator, f.denominator]
    return [0, 0]


# ------------------------------------------------------------------ TLC
class TLCResult:
    def __init__(self):
        self.cases = []
        self.lines = []      # other PrintT lines (decoded strings)
        self.generated = 0
        self.distinct = 0
        self.depth = 0
        self.ok = False
        self.error = None
        self.stdout_tail = ""
        self.cmd = ""
        self.wall = 0.0
        self.coverage = {}


def _parse_tlc_stdout(path, res, want_cases=True, tags=("CASE",)):
    tail = []
    with open(path, "r", errors="replace") as f:
        for line in f:
            if line.startswith('"'):
                s = line.rstrip("\n")
                try:
                    txt = json.loads(s)
                except Exception:
                    tail.append(line)
                    continue
                sp = txt.find(" ")
                tag = txt[:sp] if sp > 0 else txt
                if tag in tags:
                    try:
                        res.cases.append((tag, json.loads(txt[sp + 1:])))
                    except Exception as e:
                        raise MachineryError("unparsable case line: %s" % txt[:200])
                else:
                    res.lines.append(txt)
                continue
            m = re.match(r"(\d[\d,]*) states generated, (\d[\d,]*) distinct states found", line)
            if m:
                res.generated = int(m.group(1).replace(",", ""))
                res.distinct = int(m.group(2).replace(",", ""))
            m = re.match(r"The depth of the complete state graph search is (\d+)", line)
            if m:
                res.depth = int(m.group(1))
            if "Model checking completed. No error has been found" in line:
                res.ok = True
            if line.startswith("Error:") and res.error is None:
                res.error = line.strip()
            m = re.match(r"<(\w+) line (\d+), col \d+ to line \d+, col \d+ of module (\w+)>: (\d+):(\d+)", line)
            if m:
                res.coverage[m.group(1)] = res.coverage.get(m.group(1), 0) + int(m.group(5))
            tail.append(line)
            if len(tail) > 400:
                del tail[:200]
    res.stdout_tail = "".join(tail[-120:])


def run_model(ctx, module, timeout, thorough_seeds=None, **kw):
    """the model of a property at the tier of ctx; the thorough tier of models with a Seed constant runs several seeds"""
    cfg = "%s_%s.cfg" % (module, ctx.tier)
    if ctx.tier == "thorough" and thorough_seeds:
        return run_tlc_seeds(module, cfg, thorough_seeds, timeout=timeout, **kw)
    return run_tlc(module, cfg, timeout=timeout, **kw)


def run_tlc_seeds(module, cfg, seeds, **kw):
    """The same model under several values of the constant Seed (different control nets and weight patterns): one TLC run per
    value; cases are concatenated, state counts added.  The first failing run is returned as it is."""
    total = None
    for sd in seeds:
        r = run_tlc(module, cfg, overrides={"Seed": str(sd)}, **kw)
        if not r.ok or r.error:
            return r
        if total is None:
            total = r
            total.cmd += "  [Seed = %s]" % ", ".join(map(str, seeds))
        else:
            total.cases += r.cases
            total.lines += r.lines
            total.generated += r.generated
            total.distinct += r.distinct
            total.depth = max(total.depth, r.depth)
            total.wall += r.wall
    return total


def run_tlc(module, cfg, env=None, workers=None, timeout=3600, simulate=None, extra=None, tags=("CASE",),
            coverage=False, jvm=None, postcondition_ok=True, overrides=None):
    """Run TLC on spec/<module>.tla with spec/<cfg>; returns TLCResult (cases = decoded PrintT lines).
    overrides: {constant: value text} replaces `constant = ...` lines of the configuration (written to the scratch directory)."""
    workers = workers or NCPU
    disarm_watchdog()               # (TLC runs have their own timeout)
    if overrides:
        extra = list(extra or []) + ["--overrides--"] + ["%s=%s" % kv for kv in sorted(overrides.items())]
    # Diagnostic campaigns (tools/mutants.py) replay the SAME specification output into many variants of the code: the output of a
    # pure-specification run does not depend on the code, so it may be kept between runs.  Never set by a registered command.
    cache_dir = os.environ.get("VERIF_TLC_CACHE")
    cache_file = None
    if cache_dir and not simulate and not (env and "TRACE_FILE" in env):
        h = hashlib.sha1()
        for fn in sorted(os.listdir(SPEC)):
            if fn.endswith(".tla") or fn == cfg:
                with open(os.path.join(SPEC, fn), "rb") as fh:
                    h.update(fn.encode() + b"\0" + fh.read())
        h.update(json.dumps([module, cfg, sorted((env or {}).items()), list(extra or []), list(tags)], default=str).encode())
        cache_file = os.path.join(cache_dir, "%s.%s.%s.out" % (module, cfg, h.hexdigest()[:16]))
        if os.path.exists(cache_file):
            res = TLCResult()
            res.cmd = "(cached) %s %s" % (module, cfg)
            _parse_tlc_stdout(cache_file, res, tags=tags)
            res.returncode = 0 if res.ok else 1
            res.wall = 0.0
            return res
    scratch = tempfile.mkdtemp(prefix="verif_tlc_")
    out = os.path.join(scratch, "stdout.txt")
    os.makedirs(os.path.join(scratch, "jtmp"), exist_ok=True)
    if overrides:
        extra = extra[:extra.index("--overrides--")]
        with open(os.path.join(SPEC, cfg)) as fh:
            txt = fh.read()
        for name, val in overrides.items():
            txt2 = re.sub(r"(?m)^(\s*)%s\s*=.*$" % re.escape(name), r"\g<1>%s = %s" % (name, val), txt)
            if txt2 == txt and not re.search(r"(?m)^\s*%s\s*=\s*%s\s*$" % (re.escape(name), re.escape(val)), txt):
                raise MachineryError("constant %s not found in %s" % (name, cfg))
            txt = txt2
        cfg_path = os.path.join(scratch, "override_" + cfg)
        with open(cfg_path, "w") as fh:
            fh.write(txt)
        cfg_for_tlc = cfg_path
    else:
        cfg_for_tlc = cfg
    cmd = ["java", "-XX:+UseParallelGC", "-XX:ParallelGCThreads=4", "-Xms2g", "-Xmx12g", "-Xss32m",
           "-Djava.io.tmpdir=" + os.path.join(scratch, "jtmp")] + (jvm or []) + ["-cp", TLA_CP, "tlc2.TLC",
           "-workers", str(workers), "-metadir", os.path.join(scratch, "meta"), "-noGenerateSpecTE",
           "-config", cfg_for_tlc]
    if coverage:
        cmd += ["-coverage", "1"]
    if simulate:
        cmd += ["-simulate", simulate]
    if extra:
        cmd += list(extra)
    cmd += [module + ".tla"]
    e = dict(os.environ)
    if env:
        e.update({k: str(v) for k, v in env.items()})
    res = TLCResult()
    res.cmd = " ".join(cmd[cmd.index("tlc2.TLC"):]).replace(scratch, "$SCRATCH") + ((" with " + ", ".join("%s = %s" % kv for kv in sorted(overrides.items()))) if overrides else "")
    t0 = time.time()
    try:
        with open(out, "w") as fo:
            p = subprocess.run(cmd, cwd=SPEC, env=e, stdout=fo, stderr=subprocess.STDOUT, timeout=timeout)
        res.returncode = p.returncode
        _parse_tlc_stdout(out, res, tags=tags)
        if cache_file and res.ok and not res.error:
            os.makedirs(cache_dir, exist_ok=True)
            shutil.copyfile(out, cache_file + ".tmp%d" % os.getpid())
            os.replace(cache_file + ".tmp%d" % os.getpid(), cache_file)
    except subprocess.TimeoutExpired:
        res.returncode = -9
        _parse_tlc_stdout(out, res, tags=tags)
        res.error = "timeout after %ss" % timeout
        if simulate:
            res.ok = True   # simulation runs are stopped by the outer timeout on purpose
            res.error = None
    finally:
        res.wall = time.time() - t0
        shutil.rmtree(scratch, ignore_errors=True)
    if simulate and res.error is None:
        res.ok = True
    return res


def tlc_must_pass(res, what):
    """A failure inside a pure-specification run is a machinery/spec error, not a verdict on the code."""
    if not res.ok or res.error:
        raise MachineryError("TLC run failed for %s: %s\n%s" % (what, res.error, res.stdout_tail[-3000:]))


# ------------------------------------------------------------------ verdicts
class Ctx:
    def __init__(self, prop, tier, seed, replay=None):
        self.prop, self.tier, self.seed = prop, tier, seed
        self.t0 = time.time()
        self.evaluations = 0
        self.nontrivial = set()
        self.samples = []
        self.violations = []
        self.states = 0
        self.transitions = 0
        self.traces = 0
        self.tlc_cmds = []
        self.extra = {}
        self.assumptions = []
        self.rule = ""
        self.exhaustive = True
        self.replay_mode = replay is not None
        self.inconclusive = 0
        self.theorems = []
        self._full = None    # the complete emitted case currently being replayed (stored with a violation)
        self.seen_full = []  # every case replayed in the first pass (for the shuffled second pass)
        self.second_pass = False

    @property
    def full(self):
        return self._full

    @full.setter
    def full(self, value):
        self._full = value
        if not self.replay_mode or value is not None:
            arm_watchdog()          # a case starts: the replay of one case takes far less than CASE_LIMIT_S on any tree that terminates
        if not self.second_pass and not self.replay_mode and isinstance(value, dict) and (not self.seen_full or self.seen_full[-1] is not value):
            self.seen_full.append(value)

    # bookkeeping ---------------------------------------------------------
    def add_tlc(self, res, note=""):
        self.states += res.distinct
        self.transitions += res.generated
        self.tlc_cmds.append({"cmd": res.cmd, "distinct": res.distinct, "generated": res.generated,
                              "depth": res.depth, "wall_s": round(res.wall, 1), "note": note})

    def count(self, key=None, nontrivial=True, sample=None):
        if self.second_pass:
            self.second_pass_evaluations = getattr(self, "second_pass_evaluations", 0) + 1
            return
        self.evaluations += 1
        if nontrivial and key is not None:
            self.nontrivial.add(key if isinstance(key, (str, int, tuple)) else json.dumps(key, sort_keys=True))
        if sample is not None and len(self.samples) < 6:
            self.samples.append(sample)

    def violate(self, call_site, tags, case, detail):
        """Record one deviation of the implementation from the specification."""
        if self.second_pass:
            # only deviations that did NOT occur when the same case ran in the first pass are new information
            sig = json.dumps([call_site, sorted(t for t in tags), case], sort_keys=True, default=str)
            if sig in self._first_pass_sigs:
                return
            tags = list(tags) + ["second_pass_in_shuffled_order"]
        self.violations.append({"property": self.prop, "call_site": call_site, "tags": sorted(tags),
                                "case": case, "detail": detail, "full": self.full})

    def run_second_pass(self, replay_fn, limit):
        """The replay of a case is a function of the case alone: cases already replayed are replayed again in this interpreter, in a
        shuffled order.  A deviation that appears only now means that state left behind by other calls (memo tables, shared
        lists, module-level options) changes an answer."""
        import random
        if not self.seen_full:
            return
        self._first_pass_sigs = {json.dumps([v["call_site"], [t for t in v["tags"]], v["case"]], sort_keys=True, default=str) for v in self.violations}
        cases = list(self.seen_full)
        random.Random(self.seed).shuffle(cases)
        self.second_pass = True
        try:
            for cs in cases[:limit]:
                replay_fn(self, {"full": cs, "case": {}})
        finally:
            self.second_pass = False
        self.extra["second_pass"] = {"cases_replayed_again_in_shuffled_order": min(limit, len(cases)),
                                     "evaluations": getattr(self, "second_pass_evaluations", 0)}

    # finishing -----------------------------------------------------------
    def finish(self):
        known = load_known()
        printed = set()
        real = []
        for v in self.violations:
            k = match_known(known, v)
            if k is not None:
                if k["id"] not in printed:
                    printed.add(k["id"])
                    print("KNOWN-FINDING: property=%s %s [%s] e.g. %s" % (self.prop, k["what"], k["id"],
                                                                          json.dumps(v["detail"])[:200]))
            else:
                real.append(v)
        paths = []
        seen_sig = set()
        for v in real:
            sig = v["call_site"]
            if sig in seen_sig and len(paths) >= 3:
                continue
            seen_sig.add(sig)
            if len(paths) >= 10:
                break
            h = hashlib.sha1(json.dumps(v, sort_keys=True, default=str).encode()).hexdigest()[:12]
            d = os.path.join(os.environ.get("VERIF_REPLAY_DIR") or os.path.join(VERIF, "replays"), self.prop)
            os.makedirs(d, exist_ok=True)
            p = os.path.join(d, h + ".json")
            with open(p, "w") as f:
                json.dump(v, f, indent=1, default=str)
            paths.append(p)
            print("VIOLATION property=%s replay=%s" % (self.prop, p))
            print("  call_site=%s tags=%s detail=%s" % (v["call_site"], v["tags"], json.dumps(v["detail"], default=str)[:400]))
        if len(real) > len(paths):
            print("  (%d further deviations of the same kinds not written out)" % (len(real) - len(paths)))
        if not self.replay_mode and not os.environ.get("VERIF_NO_EVIDENCE"):
            self.write_evidence(len(real), sorted(printed))
        return 1 if real else 0

    def write_evidence(self, nviol, known_hit):
        cov = {
            "states": max(self.states, 0), "transitions": max(self.transitions, 0),
            "traces_validated_against_impl": self.traces,
            "samples": self.samples[:6] or ["(none)"],
            "evaluations": self.evaluations,
            "distinct_nontrivial": len(self.nontrivial),
            "rule": self.rule,
            "exhaustive": bool(self.exhaustive),
            "tlc_runs": self.tlc_cmds,
            "spec_theorems_checked_by_tlc": self.theorems,
            "inconclusive_fields": self.inconclusive,
            "known_findings_hit": known_hit,
        }
        cov.update(self.extra)
        ev = {"property_id": self.prop, "tier": self.tier, "seed": int(self.seed), "level": "model_checking",
              "coverage": cov, "assumptions": self.assumptions, "wall_s": round(time.time() - self.t0, 2),
              "violations": nviol}
        # suites outside the listed properties (X..) keep their record under notes/, evidence/ holds the listed properties only
        sub = "evidence" if self.prop.startswith("C") else "notes"
        os.makedirs(os.path.join(VERIF, sub), exist_ok=True)
        with open(os.path.join(VERIF, sub, self.prop + (".json" if sub == "evidence" else ".record.json")), "w") as f:
            json.dump(ev, f, indent=1, default=str)


def load_known():
    p = os.path.join(VERIF, "known_findings.json")
    if not os.path.exists(p):
        return []
    with open(p) as f:
        return [k for k in json.load(f).get("findings", []) if k.get("status") == "open"]


def match_known(known, v):
    for k in known:
        if k["property"] == v["property"] and k["call_site"] == v["call_site"] and set(k.get("tags", [])) <= set(v["tags"]):
            return k
    return None
