"""C12 - no stale derived state after any sequence of edits; deep copies are independent.
TLC enumerates every interleaving of public mutators and readers up to the depth bound and computes the definition after each
history.  Replay: the real object is driven through the history (reads included), then every derived view is compared with a
twin freshly built from the SPEC's definition."""
import copy
from .. import core
from ..core import fr, frv, fl, close_seq
from ..adapter import build, project, same_def, shape_key
from ..histories import replay_history, read_view, apply_step
from .c01 import KIND
from . import c04

MUTATORS = {"insert", "remove", "refine", "reverse", "transpose", "flip", "set_ctrlpts", "set_weights", "scale_weights", "translate", "scale",
            "sample_size", "sample_size_dir", "edit_ctrlpts", "edit_ctrlptsw"}


def views_of(sh):
    v = ["ctrlpts", "evalpts", "bbox", "sample_size"]
    if sh["rat"]:
        v += ["weights", "ctrlptsw"]
    if len(sh["deg"]) == 2:
        v += ["ctrlpts2d", "tess"]
    return v


INIT_SAMPLES = 4      # initial sampling density of both the driven object and the twin (keeps evalpts small)


def init_sampling(o):
    """different sample sizes per direction: derived views that silently assume equal sizes must show"""
    pd = o.pdimension
    if pd == 1:
        o.sample_size = INIT_SAMPLES
    elif pd == 2:
        o.sample_size_u, o.sample_size_v = 3, 4
    else:
        o.sample_size_u, o.sample_size_v, o.sample_size_w = 2, 3, 2


def start(sh0):
    o = build(sh0)
    init_sampling(o)
    return o


def twin(defn, hist):
    t = build(defn)
    init_sampling(t)
    for st in hist:
        if st["a"] == "sample_size":
            t.sample_size = st["n"]
        elif st["a"] == "sample_size_dir":
            setattr(t, "sample_size_" + "uvw"[st["d"] - 1], st["n"])
    return t


def compare_views(ctx, site, tg, small, obj, tw, views, what):
    for v in views:
        try:
            a = read_view(obj, v)
        except Exception as e:
            ctx.violate(site, tg + ["raises", "view=" + v, what], small, {"exception": repr(e)[:300]})
            return False
        if v == "tess":
            # two derived views of the same object: the mesh vertices are the sampled points, in the order of the sampled grid
            ev = read_view(obj, "evalpts")
            if not close_seq(a[0], ev, 1e-9):
                ctx.violate(site, tg + ["view=tess", "vertices_vs_evalpts", what], small, {"n_vertices": len(a[0]), "n_evalpts": len(ev)})
                return False
        b = read_view(tw, v)
        if not close_seq(a, b, 1e-9):
            ctx.violate(site, tg + ["view=" + v, what], small, {"view": v, "object_reports": str(a)[:300], "fresh_twin_reports": str(b)[:300]})
            return False
    return True


def full_key(sh):
    """identifies an initial shape including its control net (several seeds give the same degrees / knots with different nets)"""
    return core.json.dumps(sh, sort_keys=True)


def hkey(hist):
    return core.json.dumps(hist, sort_keys=True)


def check_case(ctx, cs, defs):
    ctx.full = dict(cs, prefix_def=defs.get(hkey(cs["hist"][:-1]), cs["sh0"]))
    sh0, hist, exp = cs["sh0"], cs["hist"], cs["obj"]
    prefix_def = ctx.full["prefix_def"]
    kind = KIND[len(sh0["deg"])]
    last = hist[-1]
    reads_before = sorted({s["v"] for s in hist[:-1] if s["a"] == "read"})
    tg = [kind, "rational" if sh0["rat"] else "nonrational", "mutator=" + last["a"]] + ["read_before=" + v for v in reads_before]
    small = {"kind": kind, "rat": sh0["rat"], "hist": [{k: v for k, v in s.items() if k in ("a", "v", "prm", "num", "d", "u", "r", "dens", "k", "n", "f", "i")} for s in hist]}
    cls = ("NURBS." if sh0["rat"] else "BSpline.") + kind.capitalize()
    site = "%s.%s" % (cls, last["a"])
    ctx.count(c04.hist_key(cs), sample=small)
    views = views_of(exp)
    # (1) the object driven through the history
    try:
        obj = start(sh0)
        for st in hist:
            apply_step(obj, st, "method")
    except Exception as e:
        ctx.violate(site, tg + ["raises"], small, {"exception": repr(e)[:300]})
        return
    bad = same_def(project(obj), exp)
    if bad:
        ctx.violate(site, tg + ["definition"], small, {"field": bad})
        return
    if not compare_views(ctx, site, tg, small, obj, twin(exp, hist), views, "after_history"):
        return
    # (2) deep copy independence: mutate the copy, the original must still report the prefix state, and vice versa
    if last["a"] not in ("sample_size", "sample_size_dir") and (len(hist) <= 2 or ctx.tier == "thorough"):
        try:
            def prefix():
                o = start(sh0)
                for st in hist[:-1]:
                    apply_step(o, st, "method")
                return o
            o1 = prefix()
            c1 = copy.deepcopy(o1)
            apply_step(c1, last, "method")
            # (views are read in reverse order here, e.g. the tessellation before the sampled points: the order of reads matters
            #  when caches or components are shared)
            ok = compare_views(ctx, cls + ".__deepcopy__", tg, small, o1, twin(prefix_def, hist[:-1]), views_of(prefix_def)[::-1], "original_after_editing_copy")
            ok = ok and compare_views(ctx, cls + ".__deepcopy__", tg, small, c1, twin(exp, hist), views[::-1], "edited_copy")
            if ok:
                o2 = prefix()
                c2 = copy.deepcopy(o2)
                apply_step(o2, last, "method")
                compare_views(ctx, cls + ".__deepcopy__", tg, small, c2, twin(prefix_def, hist[:-1]), views_of(prefix_def), "copy_after_editing_original")
        except Exception as e:
            ctx.violate(cls + ".__deepcopy__", tg + ["raises"], small, {"exception": repr(e)[:300]})


THEOREMS = ["T_WellFormed", "P_ReadPure (readers and sampling changes never change the definition)",
            "CacheDiscipline: no stale flag is reachable in the complete flag graph built from the probed Populates/Effect tables"]


def run(ctx):
    res = core.run_model(ctx, "MC_C12", 3400, thorough_seeds=(2, 3))
    core.tlc_must_pass(res, "MC_C12")
    ctx.add_tlc(res, "all interleavings of mutators and readers up to the depth bound")
    ctx.theorems = THEOREMS
    defs = {}
    for tag, cs in res.cases:
        defs[(full_key(cs["sh0"]), hkey(cs["hist"]))] = cs["obj"]
    n = 0
    muts = {}
    for tag, cs in res.cases:
        last = cs["hist"][-1]
        if last["a"] not in MUTATORS:
            continue          # a trailing read is subsumed by the final read of every view
        n += 1
        muts[last["a"]] = muts.get(last["a"], 0) + 1
        sk = full_key(cs["sh0"])
        check_case(ctx, cs, {k[1]: v for k, v in defs.items() if k[0] == sk} if False else _Prefix(defs, sk))
    if len(muts) < 10:
        raise core.MachineryError("vacuous model: mutators seen %s" % muts)
    check_independent_results(ctx)
    check_redefinition(ctx)
    resc = core.run_tlc("MC_C12c", "MC_C12c_%s.cfg" % ctx.tier, timeout=600, workers=4)
    core.tlc_must_pass(resc, "MC_C12c")
    ctx.add_tlc(resc, "container histories: reads, element additions, in-place element edits, sampling changes")
    nc = sum(1 for tag, cs in resc.cases if check_container(ctx, cs))
    ctx.extra["container_histories"] = nc
    n += nc
    # finite abstraction over ALL histories: implementation-shaped tables probed from the working tree, complete flag graph by TLC
    from .. import cacheprobe
    cacheprobe.cache_discipline_check(ctx)
    ctx.traces = n
    ctx.extra.update({"histories_ending_in_mutator": muts, "histories_total": len(res.cases)})
    from .. import tracedrv
    tracedrv.trace_check(ctx, 150 if ctx.tier == "quick" else 1200, 6 if ctx.tier == "quick" else 8)
    ctx.rule = ("every history ending in a mutator is replayed (reads inside the history are performed), then all views are compared with a "
                "twin built from the spec's definition; then the deep-copy independence checks (edit copy / edit original)")
    ctx.assumptions = ["1e-9 relative tolerance between object and twin", "containers are covered by the container sub-check"]


# ---------------------------------------------------------------------------------------------- containers
def _elem(i, version):
    """element i (a small NURBS/B-spline curve) after `version` in-place edits (translations by (1, 1))"""
    from geomdl import BSpline, NURBS, operations
    c = (NURBS.Curve if i % 2 == 0 else BSpline.Curve)()
    c.degree = 2
    if i % 2 == 0:
        c.ctrlptsw = [[0.0 + i, 0.0, 1.0], [2.0 + 2 * i, 4.0, 2.0], [2.0 + i, 0.5, 0.5], [3.0 + i, 3.0, 1.0]]
    else:
        c.ctrlpts = [[0.0 + i, 1.0], [1.0 + i, 3.0], [2.0 + i, 0.0], [4.0 + i, 2.0]]
    c.knotvector = [0, 0, 0, 0.5, 1, 1, 1]
    for _ in range(version):
        operations.translate(c, [1.0, 1.0], inplace=True)
    return c


def _elem_sv(kind, i, version):
    """element i of a surface / volume container after `version` in-place edits (translations by (1, 1, 1))"""
    from geomdl import BSpline, NURBS, operations
    if kind == "surface":
        s = (NURBS.Surface if i % 2 == 0 else BSpline.Surface)()
        s.degree_u, s.degree_v = 2, 1
        pts = [[float(a + i), float(b), float((a * a + b + i) % 3)] for a in range(3) for b in range(2)]
        if i % 2 == 0:
            s.set_ctrlpts([[p[0] * w, p[1] * w, p[2] * w, w] for p, w in zip(pts, [1.0, 2.0, 0.5, 1.0, 3.0, 1.0])], 3, 2)
        else:
            s.set_ctrlpts(pts, 3, 2)
        s.knotvector_u, s.knotvector_v = [0, 0, 0, 1, 1, 1], [0, 0, 1, 1]
    else:
        s = BSpline.Volume()
        s.degree_u, s.degree_v, s.degree_w = 1, 1, 1
        s.set_ctrlpts([[float(a + i), float(b), float(c + (a * b) % 2)] for c in range(2) for a in range(2) for b in range(2)], 2, 2, 2)
        s.knotvector_u = s.knotvector_v = s.knotvector_w = [0, 0, 1, 1]
    for _ in range(version):
        operations.translate(s, [1.0, 1.0, 1.0], inplace=True)
    return s


def check_container(ctx, cs):
    from geomdl import multi, operations
    ctx.full = cs
    hist = cs["hist"]
    last = hist[-1]
    if last["a"] == "c_read":
        return False
    reads_before = sorted({s["v"] for s in hist[:-1] if s["a"] == "c_read"})
    maxd = max([s["d"] for s in hist if s["a"] == "c_sample_dir"] + [1])
    for kind, pdim, Cont in (("curve", 1, multi.CurveContainer), ("surface", 2, multi.SurfaceContainer), ("volume", 3, multi.VolumeContainer)):
        if maxd > pdim or (pdim > 1 and len(hist) > 3 and ctx.tier == "quick" and maxd == 1 and not any(s["a"] == "c_sample_dir" for s in hist)):
            continue
        mk = (lambda i, v: _elem(i, v)) if pdim == 1 else (lambda i, v, kind=kind: _elem_sv(kind, i, v))
        tg = ["container", "kind=" + kind, "mutator=" + last["a"]] + ["read_before=" + v for v in reads_before]
        small = {"kind": kind, "hist": hist}
        # the aggregate views are implemented once, in the common base class of the three containers
        site = "multi.AbstractContainer"
        ctx.count(("container", kind, hkey(hist)), sample=small)
        try:
            cont = Cont()
            cont.sample_size = 5
            cont.add(mk(0, 0))
            n = 1
            for st in hist:
                if st["a"] == "c_read":
                    _ = list(cont.evalpts) if st["v"] == "evalpts" else cont.bbox
                elif st["a"] == "c_add":
                    cont.add(mk(n, 0))
                    n += 1
                elif st["a"] == "c_edit":
                    operations.translate(cont[st["i"] - 1], [1.0] * (2 if pdim == 1 else 3), inplace=True)
                elif st["a"] == "c_sample":
                    cont.sample_size = st["n"]
                elif st["a"] == "c_sample_dir":
                    if pdim == 1:
                        cont.sample_size = st["n"]
                    else:
                        setattr(cont, "sample_size_" + "uvw"[st["d"] - 1], st["n"])
            fresh = Cont()
            fresh.sample_size = cs["samp"][0] if pdim == 1 else list(cs["samp"][:pdim])
            for i, v in enumerate(cs["ver"]):
                fresh.add(mk(i, v))
            # the number of sampled points per element is fixed by the container's sampling alone (taken from a two-element
            # container with the same sampling): also when the container holds a single element
            ref2 = Cont()
            ref2.sample_size = cs["samp"][0] if pdim == 1 else list(cs["samp"][:pdim])
            ref2.add(mk(0, 0))
            ref2.add(mk(1, 0))
            per = len(ref2.evalpts) // 2
            if len(cont.evalpts) != per * len(cs["ver"]):
                ctx.violate(site + ".evalpts", tg + ["view=evalpts", "points_per_element"], small, {"elements": len(cs["ver"]), "points": len(cont.evalpts), "expected_per_element": per})
                continue
            for view in ("evalpts", "bbox"):
                a = [list(p) for p in cont.evalpts] if view == "evalpts" else [list(x) for x in cont.bbox]
                b = [list(p) for p in fresh.evalpts] if view == "evalpts" else [list(x) for x in fresh.bbox]
                if not close_seq(a, b, 1e-9):
                    ctx.violate(site + "." + view, tg + ["view=" + view], small, {"view": view, "n_container": len(a), "n_fresh": len(b),
                                                                                   "container_reports": str(a)[:160], "fresh_reports": str(b)[:160]})
                    break
            if kind == "surface" and len(cs["ver"]) >= 2:
                # the aggregated mesh read twice, with an element-preserving call in between: ids stay 0..N-1, faces address their vertices
                ids1 = [v.id for v in cont.vertices]
                cont.sample_size = list(cs["samp"][:2])
                ids2 = [v.id for v in cont.vertices]
                fok = all(all(0 <= i < len(ids2) for i in f.vertex_ids) for f in cont.faces)
                if ids1 != list(range(len(ids1))) or ids2 != list(range(len(ids2))) or not fok or [f.id for f in cont.faces] != list(range(len(cont.faces))):
                    ctx.violate(site + ".vertices", tg + ["view=tess", "read_twice"], small, {"first_ids": ids1[:5], "second_ids": ids2[:5]})
                    pass
        except Exception as e:
            ctx.violate(site, tg + ["raises"], small, {"exception": repr(e)[:300]})
    return True


def check_redefinition(ctx):
    """one object given another degree and control net on the SAME knot vector and evaluated at the same parameters as before"""
    from geomdl import BSpline
    ctx.full = {"redefinition": True}
    kv = [0.0, 0.125, 0.25, 0.375, 0.5, 0.625, 0.75, 0.875, 1.0]
    defs = [(3, [[float(i), float(i * i % 4)] for i in range(5)]), (2, [[float(i), float((3 * i) % 5)] for i in range(6)]), (1, [[float(i), float(i % 2)] for i in range(7)])]
    small = {"knot_vector": kv, "degrees": [d for d, _ in defs]}
    ctx.count(("redefinition",), sample=small)
    try:
        c = BSpline.Curve()
        for deg, P in defs + defs[:1]:
            c.degree = deg
            c.ctrlpts = [list(q) for q in P]
            c.knotvector = list(kv)
            c.sample_size = 5
            tw = BSpline.Curve()
            tw.degree = deg
            tw.ctrlpts = [list(q) for q in P]
            tw.knotvector = list(kv)
            tw.sample_size = 5
            lo, hi = c.domain
            u = (lo + hi) / 2.0 if lo <= 0.5 <= hi else lo
            # (the first evaluation under the new definition uses the very parameters of the last evaluation under the old one)
            first = c.evaluate_single(0.5)
            c.evaluate(start=0.375, stop=0.625)
            tw.evaluate(start=0.375, stop=0.625)
            mid_ok = close_seq([list(x) for x in c.evalpts], [list(x) for x in tw.evalpts], 1e-12)
            c.evaluate()
            tw.evaluate()
            last = c.evaluate_single(0.5)
            if not close_seq(first, tw.evaluate_single(0.5), 1e-12) or not mid_ok or not close_seq(last, first, 1e-12) or \
                    not close_seq([list(x) for x in c.evalpts], [list(x) for x in tw.evalpts], 1e-12) or not close_seq(c.evaluate_single(0.5), tw.evaluate_single(0.5), 1e-12):
                ctx.violate("BSpline.Curve.evaluate", ["redefined_with_other_degree", "degree=%d" % deg], small, {"object": c.evaluate_single(0.5), "fresh_twin": tw.evaluate_single(0.5)})
                break
    except Exception as e:
        ctx.violate("BSpline.Curve.evaluate", ["redefined_with_other_degree", "raises"], small, {"exception": repr(e)[:200]})


def check_independent_results(ctx):
    """operations called without the in-place option return an object of their own even when the map is the identity (zero vector,
    angle 0 or 360, factor 1): editing the result leaves the input alone"""
    from geomdl import operations
    from .c15 import SURFS
    from ..cacheprobe import SHAPES
    ctx.full = {"independent_results": True}
    for cls, sh in SHAPES.items():
        dim = len(sh["P"][0]) - (1 if sh["rat"] else 0)
        calls = [("translate_zero", lambda o: operations.translate(o, [0.0] * dim)), ("scale_one", lambda o: operations.scale(o, 1.0)),
                 ("rotate_0", lambda o: operations.rotate(o, 0, axis=2)), ("rotate_360", lambda o: operations.rotate(o, 360, axis=2)),
                 ("rotate_minus_720", lambda o: operations.rotate(o, -720.0, axis=2))]
        for name, fn in calls:
            small = {"class": cls, "call": name}
            tg = ["identity_map", name, cls]
            ctx.count(("independent", cls, name), sample=small)
            try:
                o = build(sh)
                o.sample_size = 3
                before = copy.deepcopy(project(o))
                views0 = [read_view(o, v) for v in ("ctrlpts", "evalpts", "bbox")]
                r = fn(o)
                if r is o:
                    ctx.violate("operations." + name.split("_")[0], tg + ["same_object_returned"], small, {})
                    continue
                operations.translate(r, [5.0] * dim, inplace=True)
                views1 = [read_view(o, v) for v in ("ctrlpts", "evalpts", "bbox")]
                if project(o) != before or not close_seq(views1, views0, 1e-12):
                    ctx.violate("operations." + name.split("_")[0], tg + ["input_follows_result"], small, {})
            except Exception as e:
                ctx.violate("operations." + name.split("_")[0], tg + ["raises"], small, {"exception": repr(e)[:200]})


class _Prefix:
    def __init__(self, defs, sk):
        self.defs, self.sk = defs, sk

    def get(self, hk, default):
        return self.defs.get((self.sk, hk), default)


def replay(ctx, v):
    if "trace" in v["full"]:
        from .. import tracedrv
        return tracedrv.replay_trace(ctx, v["full"])
    full = v["full"]
    if "ver" in full:
        check_container(ctx, full)
        return
    if "redefinition" in full:
        return check_redefinition(ctx)
    if "independent_results" in full:
        return check_independent_results(ctx)
    if "cache_discipline" in full:
        from .. import cacheprobe
        cacheprobe.cache_discipline_check(ctx)
        return
    check_case(ctx, full, {hkey(full["hist"][:-1]): full["prefix_def"]})
