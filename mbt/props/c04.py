"""C04 - knot insertion never changes the shape: TLC enumerates histories of insert_knot calls (all directions,
admissible counts and over-insertion); the action properties are checked on the spec; every reachable state is
replayed into real objects through operations.insert_knot and through the object wrappers."""
from .. import core
from ..core import fr, frv, fl, close_seq
from ..adapter import build, project, same_def, shape_key
from ..histories import replay_history
from .c01 import tags_of, KIND


def hist_key(cs):
    return (shape_key(cs["sh0"]), core.json.dumps(cs["hist"], sort_keys=True))


def step_tags(st):
    t = []
    if st["a"] == "insert":
        dirs = [d for d, p in enumerate(st["prm"]) if p != [] and st["num"][d] > 0]
        t.append("dirs=" + "".join("uvw"[d] for d in dirs))
        if st["rejected"]:
            t.append("rejected")
        if any(st["num"][d] > 1 for d in dirs):
            t.append("num>1")
    return t


def check_case(ctx, cs, prop_site="insert_knot"):
    ctx.full = cs
    sh0, hist, exp = cs["sh0"], cs["hist"], cs["obj"]
    tg = tags_of(sh0) + step_tags(hist[-1]) + ["depth=%d" % len(hist)]
    small = {"deg": sh0["deg"], "kv": sh0["kv"], "rat": sh0["rat"], "hist": hist}
    changed = exp != sh0
    ctx.count(hist_key(cs), nontrivial=True, sample={"sh0": {k: sh0[k] for k in ("deg", "kv", "size", "rat")}, "hist": hist,
                                                        "expected_kv": exp["kv"], "expected_size": exp["size"]})
    # (parameters 2^-20 next to a knot would come within the library's absolute knot tolerance of 1e-7 on the scaled range)
    near = any(q != [] and q[1] >= 2 ** 20 for st in hist if "prm" in st for q in st["prm"])
    unit_range = all(U[0] == [0, 1] and U[-1] == [1, 1] for U in sh0["kv"]) and not near
    for via in ("operations", "method", "tiny", "huge", "alt", "alt_method") + (("tiny_knot_range",) if unit_range else ()):
        site = ("%s." % KIND[len(sh0["deg"])].capitalize() if via in ("method", "alt_method") else "operations.") + prop_site
        conj = {"tiny": 2.0 ** -40, "huge": 2.0 ** 30}.get(via)
        if conj is not None:
            tg = [t for t in tg if not t.startswith("coordinates=")] + ["coordinates=" + via]
        if via.startswith("alt"):
            tg = [t for t in tg if not t.startswith("coordinates=")] + ["tuples_and_ints"]
        if via == "tiny_knot_range":
            tg = [t for t in tg if not t.startswith("coordinates=") and t != "tuples_and_ints"] + ["knot_range=2^-16"]
        try:
            obj, infos = replay_history(sh0, hist, "method" if via in ("method", "alt_method") else "operations", conj=conj, alt_repr=via.startswith("alt"),
                                        kv_scale=(2 ** 16 if via == "tiny_knot_range" else None))
            if via == "tiny_knot_range":
                # (back onto [0, 1] for the comparison with the specification's result)
                for U_ in obj._knot_vector:
                    for i_ in range(len(U_)):
                        U_[i_] = U_[i_] * 2.0 ** 16
        except Exception as e:
            ctx.violate(site, tg + ["raises"], small, {"exception": repr(e)[:300]})
            continue
        bad = same_def(project(obj), exp)
        if bad:
            ctx.violate(site, tg, small, {"field": bad, "expected_size": exp["size"], "got_size": list(obj._control_points_size),
                                          "expected_kv": [fl(frv(U)) for U in exp["kv"]], "got_kv": [list(U) for U in obj._knot_vector]})
            continue
        last, info = hist[-1], infos[-1]
        if last["a"] == "insert" and via == "operations":
            if bool(info["raised"]) != bool(last["rejected"]):
                ctx.violate(site, tg + ["rejection_signal"], small, {"expected_rejected": last["rejected"], "raised": info["raised"]})
        # the evaluated shape is that of the initial definition (code's own evaluator, tied to the definition by C01)
        try:
            ref = build(sh0)
            pd = len(sh0["deg"])
            for frac in (0.0, 0.3, 0.55, 1.0):
                prm = [frac] * pd
                a = obj.evaluate_single(prm[0] if pd == 1 else prm)
                b = ref.evaluate_single(prm[0] if pd == 1 else prm)
                if not close_seq(a, b, 1e-9):
                    ctx.violate(site, tg + ["evaluation"], small, {"param": prm, "before": b, "after": a})
                    break
        except Exception as e:
            ctx.violate(site, tg + ["raises", "evaluation"], small, {"exception": repr(e)[:300]})


def check_generated_knots(ctx):
    """curves whose knot vector comes from knotvector.generate(): inserting an existing interior knot, written as the literal k / n,
    once more leaves every evaluated point where it was and raises that knot's multiplicity by one"""
    from geomdl import BSpline, knotvector, operations
    ctx.full = {"generated_knots": True}
    for p_, n_ in ((3, 13), (2, 9), (3, 11), (2, 12), (4, 10), (3, 70), (2, 130)):
        kv = knotvector.generate(p_, n_)
        m_ = n_ - p_
        for k_ in (range(1, m_) if n_ < 64 else (1, m_ // 3, m_ // 2, m_ - 2, m_ - 1)):
            u = float(k_) / m_
            small = {"degree": p_, "ctrlpts": n_, "u": "%d/%d" % (k_, m_)}
            tg = ["generated_knot_vector", "existing_knot", "p=%d" % p_]
            ctx.count(("generated", p_, n_, k_), sample=small)
            try:
                c = BSpline.Curve()
                c.degree = p_
                c.ctrlpts = [[float(i), float((i * i) % 5), float((3 * i) % 4)] for i in range(n_)]
                c.knotvector = list(kv)
                prms = [j / 16.0 for j in range(17)]
                before = [c.evaluate_single(t) for t in prms]
                mult0 = sum(1 for x in c.knotvector if abs(x - u) < 1e-12)
                operations.insert_knot(c, [u], [1])
                after = [c.evaluate_single(t) for t in prms]
                mult1 = sum(1 for x in c.knotvector if abs(x - u) < 1e-12)
                if not close_seq(after, before, 1e-9) or mult1 != mult0 + 1 or len(c.ctrlpts) != n_ + 1:
                    bad = next((i for i, (a, b) in enumerate(zip(after, before)) if not close_seq(a, b, 1e-9)), None)
                    ctx.violate("operations.insert_knot", tg, small, {"multiplicity": [mult0, mult1], "first_moved_parameter": None if bad is None else prms[bad]})
            except Exception as e:
                ctx.violate("operations.insert_knot", tg + ["raises"], small, {"exception": repr(e)[:200]})


THEOREMS = ["P_SameShape: [][SameH(obj, obj')]_vars (every evaluated point unchanged, exact, deg+1 samples per span and direction)",
            "P_Structure (knot vector gains exactly the requested copies; net grows in that direction only)",
            "P_Reject (over-insertion rejected; single-direction rejection leaves the object unchanged)", "T_WellFormed"]


def run(ctx):
    res = core.run_model(ctx, "MC_C04", 3400, thorough_seeds=(2, 3))
    core.tlc_must_pass(res, "MC_C04")
    ctx.add_tlc(res, "exhaustive over initial shapes x histories of insert_knot calls; action properties checked on every transition")
    ctx.theorems = THEOREMS
    n_rej = n_multi = 0
    kinds = {}
    for tag, cs in res.cases:
        st = cs["hist"][-1]
        n_rej += 1 if st["rejected"] else 0
        n_multi += 1 if sum(1 for p in st["prm"] if p != []) > 1 else 0
        k = KIND[len(cs["sh0"]["deg"])]
        kinds[k] = kinds.get(k, 0) + 1
        check_case(ctx, cs)
    if not n_rej or not n_multi or len(kinds) < 3:
        raise core.MachineryError("vacuous model: rejected=%d multi=%d kinds=%s" % (n_rej, n_multi, kinds))
    ctx.traces = len(res.cases)
    ctx.extra.update({"histories_by_kind": kinds, "rejected_steps": n_rej, "multi_direction_steps": n_multi})
    check_generated_knots(ctx)
    from .. import tracedrv, repotrace
    repotrace.repo_trace_check(ctx)
    tracedrv.trace_check(ctx, 150 if ctx.tier == "quick" else 1200, 6 if ctx.tier == "quick" else 8)
    ctx.rule = ("every reachable state of MC_C04 (initial shape + history of insert_knot calls) is one case, replayed twice "
                "(operations.insert_knot and the object method); distinct = distinct (initial shape, history)")
    ctx.assumptions = ["1e-9 relative tolerance on knot vectors and control points", "clamped, normalised knot vectors (as the property states)"]


def replay(ctx, v):
    if "generated_knots" in v["full"]:
        return check_generated_knots(ctx)
    if "trace" in v["full"]:
        from .. import tracedrv
        return tracedrv.replay_trace(ctx, v["full"])
    check_case(ctx, v["full"])
