"""C02 - derivatives equal the exact derivatives of the definition (both evaluator families, hodographs, tangent/normal)."""
import math
from .. import core
from ..core import fr, frv, fl, close, close_seq
from ..adapter import build, shape_key, project, same_def
from .c01 import tags_of, KIND, _try


def binom(n, k):
    return math.comb(n, k)


def vec_close(a, e, tol, scale=1.0):
    return len(a) == len(e) and all(abs(float(x) - float(y)) <= tol * max(1.0, abs(float(y)), scale) for x, y in zip(a, e))


def check_table(ctx, site, tg, small, got, o, sh, pd, order, tol=1e-8):
    """compare one derivative table returned by the code with the spec's expectation"""
    rat = sh["rat"]
    D = o["D"]
    if pd == 1:
        if len(got) < order + 1:
            ctx.violate(site, tg + ["table_shape"], small, {"expected_rows": order + 1, "got_rows": len(got)})
            return
        for k in range(len(D)):
            if not close_seq(got[k], frv(D[k]), tol):
                ctx.violate(site, tg + ["k=%d" % k] + (["order>degree"] if order > sh["deg"][0] else []), small,
                            {"k": k, "expected": fl(frv(D[k])), "got": got[k]})
                return
        if rat:
            Aw = [frv(x) for x in o["Aw"]]
            for k in range(order + 1):
                A = [float(x) for x in Aw[k][:-1]]
                acc = [0.0] * len(A)
                sc = max(abs(x) for x in A + [1.0])
                for i in range(k + 1):
                    wi = float(Aw[i][-1])
                    acc = [a + binom(k, i) * wi * c for a, c in zip(acc, got[k - i])]
                    sc = max([sc] + [abs(binom(k, i) * wi * c) for c in got[k - i]])   # cancellation: scale by the largest term
                if not vec_close(acc, A, tol, sc):
                    ctx.violate(site, tg + ["leibniz", "k=%d" % k], small, {"k": k, "A_k": A, "sum_binom_w_C": acc})
                    return
    else:
        for k in range(order + 1):
            for l in range(order + 1 - k):
                try:
                    g = got[k][l]
                except Exception:
                    ctx.violate(site, tg + ["table_shape"], small, {"k": k, "l": l})
                    return
                if k < len(D) and l < len(D[k]):
                    if not close_seq(g, frv(D[k][l]), tol):
                        ctx.violate(site, tg + ["kl=%d,%d" % (k, l)] + (["order>degree"] if order > min(sh["deg"]) else []), small,
                                    {"k": k, "l": l, "expected": fl(frv(D[k][l])), "got": g})
                        return
        if rat:
            Aw = [[frv(x) for x in row] for row in o["Aw"]]
            for k in range(order + 1):
                for l in range(order + 1 - k):
                    A = [float(x) for x in Aw[k][l][:-1]]
                    acc = [0.0] * len(A)
                    sc = max(abs(x) for x in A + [1.0])
                    for i in range(k + 1):
                        for j in range(l + 1):
                            w = float(Aw[i][j][-1])
                            acc = [a + binom(k, i) * binom(l, j) * w * c for a, c in zip(acc, got[k - i][l - j])]
                            sc = max([sc] + [abs(binom(k, i) * binom(l, j) * w * c) for c in got[k - i][l - j]])
                    if not vec_close(acc, A, tol, sc):
                        ctx.violate(site, tg + ["leibniz", "kl=%d,%d" % (k, l)], small, {"k": k, "l": l, "A_kl": A, "sum": acc})
                        return


def unit(v):
    n = math.sqrt(sum(x * x for x in v))
    return [x / n for x in v] if n > 0 else None


def cross(a, b):
    return [a[1] * b[2] - a[2] * b[1], a[2] * b[0] - a[0] * b[2], a[0] * b[1] - a[1] * b[0]]


def check_case(ctx, cs):
    from geomdl import evaluators, operations
    ctx.full = cs
    sh, o = cs["sh"], cs["out"]
    pd = len(sh["deg"])
    tg = tags_of(sh)
    cname = ("NURBS." if sh["rat"] else "BSpline.") + KIND[pd].capitalize()
    small = {"deg": sh["deg"], "kv": sh["kv"], "rat": sh["rat"], "dim": len(sh["P"][0])}
    if o["op"] == "ders":
        prm = [float(x) for x in frv(o["prm"])]
        order = o["order"]
        small = dict(small, prm=o["prm"], order=order)
        ctx.count(("ders", shape_key(sh), tuple(map(tuple, o["prm"])), order),
                  sample={"op": "ders", **small, "D": o["D"]})
        ok, obj = _try(ctx, cname + ".build", tg, small, lambda: build(sh))
        if not ok:
            return
        ok, got = _try(ctx, cname + ".derivatives", tg + (["order>degree"] if order > min(sh["deg"]) else []), small, lambda: obj.derivatives(*prm, order=order))
        if ok:
            check_table(ctx, cname + ".derivatives", tg, small, got, o, sh, pd, order)
        if sh["rat"]:
            for label, kw_ in (("weights_corrected_by_edit_back", {"edit_back": True}), ("built_by_setters", {"by_setters": True})):
                ok, objp = _try(ctx, cname + ".build", tg + [label], small, lambda: build(sh, **kw_))
                if ok:
                    ok, got = _try(ctx, cname + ".derivatives", tg + [label], small, lambda: objp.derivatives(*prm, order=order))
                    if ok:
                        check_table(ctx, cname + ".derivatives", tg + [label], small, got, o, sh, pd, order)
        ok, obja = _try(ctx, cname + ".build", tg, small, lambda: build(sh, alt_repr=True))
        if ok:
            prm2 = [int(x) if float(x).is_integer() else x for x in prm]
            ok, got = _try(ctx, cname + ".derivatives", tg + ["tuples_and_ints"], small, lambda: obja.derivatives(*prm2, order=order))
            if ok:
                check_table(ctx, cname + ".derivatives", tg + ["tuples_and_ints"], small, got, o, sh, pd, order)
        # just LEFT of an interior knot the parameter belongs to the left span: every derivative is a polynomial there, so the values
        # 2^-40 and 2^-20 before the knot differ by O(2^-20) only (the left span must be chosen however close the knot is)
        if pd == 1 and order >= 1:
            U_ = [float(fr(k)) for k in sh["kv"][0]]
            u0 = prm[0]
            if U_[0] < u0 < U_[-1] and any(abs(k - u0) < 1e-15 for k in U_) and all(not (u0 - 2.0 ** -19 < k < u0) for k in U_):
                def near_left():
                    ob = build(sh)
                    return ob.derivatives(u0 - 2.0 ** -40, order=order + 1), ob.derivatives(u0 - 2.0 ** -20, order=order + 1)
                ok, r_ = _try(ctx, cname + ".derivatives", tg + ["just_left_of_knot"], small, near_left)
                if ok:
                    # mean value theorem on the left span: |D_k(a) - D_k(b)| <= |a - b| max|D_(k+1)|; the next order, taken from the same
                    # call, serves as the bound (with a factor 4 for its own variation over the 2^-20 interval)
                    for k_ in range(order + 1):
                        lip = max(abs(x) for x in r_[1][k_ + 1]) if k_ + 1 < len(r_[1]) else 0.0
                        lip = max(lip, max(abs(x) for x in r_[0][k_ + 1]) if k_ + 1 < len(r_[0]) else 0.0)
                        tol_ = 4.0 * 2.0 ** -20 * lip + 1e-9 * max(1.0, max(abs(x) for x in r_[1][k_]))
                        if any(abs(a_ - b_) > tol_ for a_, b_ in zip(r_[0][k_], r_[1][k_])):
                            ctx.violate(cname + ".derivatives", tg + ["just_left_of_knot", "k=%d" % k_], small, {"at_knot_minus_2^-40": r_[0][k_], "at_knot_minus_2^-20": r_[1][k_], "bound": tol_})
                            break
        # the documented span-search option: the derivatives (right-hand ones at a knot) are the same with the bisection search
        from geomdl import helpers as _helpers
        ok, objb = _try(ctx, cname + ".build", tg, small, lambda: build(sh, span_func=_helpers.find_span_binsearch))
        if ok:
            ok, got = _try(ctx, cname + ".derivatives", tg + ["find_span_func=binsearch"], small, lambda: objb.derivatives(*prm, order=order))
            if ok:
                check_table(ctx, cname + ".derivatives", tg + ["find_span_func=binsearch"], small, got, o, sh, pd, order)
        # the same shape on the knot range [0, 2^-24] (kept as it is): all knot differences are below 1e-7; derivatives of order k
        # scale by 2^(24 k) (affine invariance of the definition, T_Affine in MC_C17)
        if all(U[0] == [0, 1] and U[-1] == [1, 1] for U in sh["kv"]) and order <= 2:
            a_ = 2.0 ** -24
            sh_s = dict(sh, kv=[[[k[0], k[1] * 2 ** 24] for k in U] for U in sh["kv"]])
            evs = [("default", None)] + ([("alternative", evaluators.CurveEvaluator2() if pd == 1 else evaluators.SurfaceEvaluator2())] if not sh["rat"] else [])
            for ename, ev in evs:
                t2 = tg + ["knot_range=2^-24", "evaluator=" + ename]
                ok, got = _try(ctx, cname + ".derivatives", t2, small, lambda: (build(sh_s, normalize_kv=False, evaluator=ev) if ev is not None else build(sh_s, normalize_kv=False)).derivatives(*[x * a_ for x in prm], order=order))
                if ok:
                    try:
                        if pd == 1:
                            resc = [[x * a_ ** k for x in got[k]] for k in range(order + 1)]
                        else:
                            resc = [[[x * a_ ** (k + l) for x in got[k][l]] for l in range(len(got[k]))] for k in range(len(got))]
                    except Exception:
                        resc = got
                    check_table(ctx, cname + ".derivatives", t2, small, resc, o, sh, pd, order)
        if not sh["rat"]:
            ev2 = evaluators.CurveEvaluator2() if pd == 1 else evaluators.SurfaceEvaluator2()
            ok, obj2 = _try(ctx, cname + ".build", tg, small, lambda: build(sh, evaluator=ev2))
            if ok:
                site = "evaluators.%sEvaluator2.derivatives" % KIND[pd].capitalize()
                ok, got = _try(ctx, site, tg + (["order>degree"] if order > min(sh["deg"]) else []), small, lambda: obj2.derivatives(*prm, order=order))
                if ok:
                    check_table(ctx, site, tg, small, got, o, sh, pd, order)
        # the same objects after an in-place affine map: derivatives follow the map (no state survives inside the evaluators)
        if order in (1, 2) and not sh["rat"] and len(o["D"]) > order:
            from geomdl import operations as _ops
            dim = len(sh["P"][0])
            vec = [1.0 + 0.5 * k for k in range(dim)]
            fresh_alt = build(sh, evaluator=(evaluators.CurveEvaluator2() if pd == 1 else evaluators.SurfaceEvaluator2()))
            for fam, ob in (("default", build(sh)), ("alternative", fresh_alt)):
                fsite = cname + ".derivatives" if fam == "default" else "evaluators.%sEvaluator2.derivatives" % KIND[pd].capitalize()
                try:
                    ob.derivatives(*prm, order=order)
                    _ops.translate(ob, vec, inplace=True)
                    _ops.scale(ob, 2.0, inplace=True)
                    got2 = ob.derivatives(*prm, order=order)
                except Exception as e:
                    ctx.violate(fsite, tg + ["after_affine_map", "raises"], small, {"exception": repr(e)[:200]})
                    continue
                def mapped(e, zeroth):
                    return [2.0 * (float(x) + (v if zeroth else 0.0)) for x, v in zip(frv(e), vec)]
                okm = True
                if pd == 1:
                    for k in range(order + 1):
                        okm = okm and close_seq(got2[k], mapped(o["D"][k], k == 0), 1e-8)
                else:
                    for k in range(order + 1):
                        for l in range(order + 1 - k):
                            okm = okm and close_seq(got2[k][l], mapped(o["D"][k][l], k == 0 and l == 0), 1e-8)
                if not okm:
                    ctx.violate(fsite, tg + ["after_affine_map"], small, {"got": got2[0] if pd == 1 else got2[0][0]})
        # re-assignment of the knot vector on the same (already queried) object: derivatives follow the new parametrisation
        # (oracle: a freshly built object with the new knot vector - fresh objects are tied to the spec by the cases above)
        if order == 2 and pd == 1:
            U = sh["kv"][0]
            p0 = sh["deg"][0]
            interior = U[p0 + 1:len(U) - p0 - 1]
            if interior and U[0] == [0, 1] and U[-1] == [1, 1] and U[p0] == [0, 1] and U[len(U) - p0 - 1] == [1, 1]:   # clamped on [0, 1]
                newU = U[:p0 + 1] + [[k[0], k[1] * 2] for k in interior] + U[len(U) - p0 - 1:]     # interior knots halved: still valid
                sh2 = dict(sh, kv=[newU])
                try:
                    ob = build(sh)
                    ob.derivatives(*prm, order=order)
                    ob.knotvector = [n / float(d) for n, d in newU]
                    got3 = ob.derivatives(*prm, order=order)
                    ref3 = build(sh2).derivatives(*prm, order=order)
                    if not close_seq(got3, ref3, 1e-9):
                        ctx.violate(cname + ".derivatives", tg + ["after_knotvector_reassignment"], small, {"got": got3[1], "fresh_object": ref3[1]})
                except Exception as e:
                    ctx.violate(cname + ".derivatives", tg + ["after_knotvector_reassignment", "raises"], small, {"exception": repr(e)[:200]})
        if order == 1:
            D = o["D"]
            # exact first derivatives: from D when present, otherwise from the code's (already checked) table
            if pd == 1:
                if len(D) >= 2:
                    p0, d1 = fl(frv(D[0])), fl(frv(D[1]))
                    arg = prm[0]
                    ok, r = _try(ctx, "operations.tangent", tg, small, lambda: operations.tangent(obj, arg, normalize=False))
                    if ok and not (close_seq(list(r[0]), p0, 1e-8) and close_seq(list(r[1]), d1, 1e-8)):
                        ctx.violate("operations.tangent", tg, small, {"expected": [p0, d1], "got": r})
                    ok, r = _try(ctx, "operations.tangent", tg + ["normalize"], small, lambda: operations.tangent(obj, arg))      # normalised by default
                    u1 = unit(d1)
                    if ok and u1 is not None and not close_seq(list(r[1]), u1, 1e-8):
                        ctx.violate("operations.tangent", tg + ["normalize"], small, {"expected": u1, "got": r})
                    # several parameters in one call: one (point, vector) pair per parameter, in order
                    ok, r = _try(ctx, "operations.tangent", tg + ["param_list"], small, lambda: operations.tangent(obj, [arg, arg], normalize=False))
                    if ok and not (len(r) == 2 and all(len(x) == 2 and close_seq(list(x[0]), p0, 1e-8) and close_seq(list(x[1]), d1, 1e-8) for x in r)):
                        ctx.violate("operations.tangent", tg + ["param_list"], small, {"expected": [[p0, d1]] * 2, "got": r})
            else:
                if len(D) >= 2 and len(D[0]) >= 2:
                    p0, du, dv = fl(frv(D[0][0])), fl(frv(D[1][0])), fl(frv(D[0][1]))
                    ok, r = _try(ctx, "operations.tangent", tg, small, lambda: operations.tangent(obj, list(prm), normalize=False))
                    if ok and not (close_seq(list(r[0]), p0, 1e-8) and close_seq(list(r[1]), du, 1e-8) and close_seq(list(r[2]), dv, 1e-8)):
                        ctx.violate("operations.tangent", tg, small, {"expected": [p0, du, dv], "got": r})
                    n = cross(du, dv)
                    un = None
                    ok, r = _try(ctx, "operations.normal", tg, small, lambda: operations.normal(obj, list(prm), normalize=False))
                    if ok and not (close_seq(list(r[0]), p0, 1e-8) and close_seq(list(r[1]), n, 1e-7)):
                        ctx.violate("operations.normal", tg, small, {"expected": [p0, n], "got": r})
                    # the same surface in a very small unit: the normalised normal is still a unit vector in the same direction
                    if un is None:
                        un_ = unit(n)
                    else:
                        un_ = un
                    if un_ is not None and math.sqrt(sum(x * x for x in n)) > 1e-6:
                        def tiny_normal():
                            ob = build(sh)
                            operations.scale(ob, 2.0 ** -20, inplace=True)
                            return operations.normal(ob, list(prm), normalize=True), operations.tangent(ob, list(prm), normalize=True)
                        ok, r = _try(ctx, "operations.normal", tg + ["normalize", "coordinates=2^-20"], small, tiny_normal)
                        if ok:
                            v = list(r[0][1])
                            if abs(sum(x * x for x in v) - 1.0) > 1e-9 or not close_seq(v, un_, 1e-7):
                                ctx.violate("operations.normal", tg + ["normalize", "coordinates=2^-20"], small, {"expected": un_, "got": v})
                            for vec, d in ((r[1][1], du), (r[1][2], dv)):
                                ud = unit(d)
                                if ud is not None and not close_seq(list(vec), ud, 1e-8):
                                    ctx.violate("operations.tangent", tg + ["normalize", "coordinates=2^-20"], small, {"expected": ud, "got": list(vec)})
                    ok, r = _try(ctx, "operations.tangent", tg + ["param_list"], small, lambda: operations.tangent(obj, [list(prm), list(prm)], normalize=False))
                    if ok and not (len(r) == 2 and all(len(x) == 3 and close_seq(list(x[0]), p0, 1e-8) and close_seq(list(x[1]), du, 1e-8)
                                                       and close_seq(list(x[2]), dv, 1e-8) for x in r)):
                        ctx.violate("operations.tangent", tg + ["param_list"], small, {"expected": [[p0, du, dv]] * 2, "got": r})
                    ok, r = _try(ctx, "operations.normal", tg + ["param_list"], small, lambda: operations.normal(obj, [list(prm), list(prm)], normalize=False))
                    if ok and not (len(r) == 2 and all(len(x) == 2 and close_seq(list(x[0]), p0, 1e-8) and close_seq(list(x[1]), n, 1e-7) for x in r)):
                        ctx.violate("operations.normal", tg + ["param_list"], small, {"expected": [[p0, n]] * 2, "got": r})
                    un = unit(n)
                    if un is not None and math.sqrt(sum(x * x for x in n)) > 1e-6:
                        ok, r = _try(ctx, "operations.normal", tg + ["normalize"], small, lambda: operations.normal(obj, list(prm)))      # normalised by default
                        if ok:
                            v = list(r[1])
                            bad = (abs(sum(x * x for x in v) - 1.0) > 1e-9 or abs(sum(a * b for a, b in zip(v, du))) > 1e-7 * max(1, max(map(abs, du)))
                                   or abs(sum(a * b for a, b in zip(v, dv))) > 1e-7 * max(1, max(map(abs, dv))) or not close_seq(v, un, 1e-7))
                            if bad:
                                ctx.violate("operations.normal", tg + ["normalize"], small, {"expected": un, "got": v})
                        ok, r = _try(ctx, "operations.tangent", tg + ["normalize"], small, lambda: operations.tangent(obj, list(prm), normalize=True))
                        if ok:
                            for vec, d in ((r[1], du), (r[2], dv)):
                                ud = unit(d)
                                if ud is not None and not close_seq(list(vec), ud, 1e-8):
                                    ctx.violate("operations.tangent", tg + ["normalize"], small, {"expected": ud, "got": list(vec)})
    elif o["op"] == "hodo":
        ctx.count(("hodo", shape_key(sh)), sample={"op": "hodo", **small})
        ok, obj = _try(ctx, cname + ".build", tg, small, lambda: build(sh))
        if not ok:
            return
        if pd == 1:
            ok, h = _try(ctx, "operations.derivative_curve", tg, small, lambda: operations.derivative_curve(obj))
            if ok:
                bad = same_def(project(h), o["h"][0], 1e-8)
                if bad:
                    ctx.violate("operations.derivative_curve", tg, small, {"field": bad, "got": project(h)})
        else:
            ok, hs = _try(ctx, "operations.derivative_surface", tg + ["deg_u=%d" % sh["deg"][0]], small, lambda: operations.derivative_surface(obj))
            if ok:
                for name, h, e in zip(("u", "v", "uv"), hs, o["h"]):
                    bad = same_def(project(h), e, 1e-8)
                    if bad:
                        ctx.violate("operations.derivative_surface", tg + ["hodo_" + name], small, {"field": bad, "got": project(h)})
    else:
        raise core.MachineryError("unknown op " + o["op"])


def check_high_order(ctx):
    """rational Bezier curves of degree 5 and 6, derivatives up to order 8 (beyond the lattice of the model, whose exact rational
    values leave TLC's integers): the quotient rule C^(k) = (A^(k) - sum_i binom(k, i) w^(i) C^(k-i)) / w evaluated in exact
    arithmetic on the power-basis form of the homogeneous curve"""
    from fractions import Fraction as Fr
    from math import comb, factorial
    from geomdl import NURBS
    ctx.full = {"high_order": True}
    for n in (5, 6):
        P = [[Fr((i * i + 2 * i) % 7 - 3), Fr((3 * i + i * i * i) % 5 - 2)] for i in range(n + 1)]
        W = [Fr(w) for w in ([1, 2, 1, 3, 2, 1, 2][:n + 1])]
        hom = [[P[i][0] * W[i], P[i][1] * W[i], W[i]] for i in range(n + 1)]
        # Bernstein -> power basis, per coordinate
        coef = [[comb(n, k) * sum((-1) ** (k - i) * comb(k, i) * hom[i][c] for i in range(k + 1)) for k in range(n + 1)] for c in range(3)]
        for u in (Fr(1, 3), Fr(0), Fr(3, 4)):
            def dpoly(c, k):
                return sum(coef[c][j] * Fr(factorial(j), factorial(j - k)) * u ** (j - k) for j in range(k, n + 1))
            order = 8
            Ck = []
            for k in range(order + 1):
                v = [dpoly(0, k), dpoly(1, k)]
                for i in range(1, k + 1):
                    wi = dpoly(2, i)
                    v = [v[d] - comb(k, i) * wi * Ck[k - i][d] for d in range(2)]
                Ck.append([x / dpoly(2, 0) for x in v])
            small = {"degree": n, "u": str(u), "order": order}
            tg = ["curve", "rational", "bezier", "p=%d" % n, "order=%d" % order]
            ctx.count(("high_order", n, str(u)), sample=small)
            try:
                c = NURBS.Curve()
                c.degree = n
                c.ctrlptsw = [[float(x) for x in q] for q in hom]
                c.knotvector = [0.0] * (n + 1) + [1.0] * (n + 1)
                got = c.derivatives(float(u), order=order)
                for k in range(order + 1):
                    sc = max(1.0, max(abs(float(x)) for x in Ck[k]))
                    if any(abs(g - float(e)) > 1e-7 * sc for g, e in zip(got[k], Ck[k])):
                        ctx.violate("NURBS.Curve.derivatives", tg + ["k=%d" % k], small, {"k": k, "expected": [float(x) for x in Ck[k]], "got": list(got[k])})
                        break
            except Exception as e:
                ctx.violate("NURBS.Curve.derivatives", tg + ["raises"], small, {"exception": repr(e)[:200]})


THEOREMS = ["T_Alg2 (A3.3/A3.4 and A3.7/A3.8 transcriptions = derivative of the definition)", "T_ZeroAboveDegree", "T_Order0",
            "T_Hodo (hodograph shapes evaluate to the first / mixed derivatives at every span sample)"]


def run(ctx):
    res = core.run_model(ctx, "MC_C02", 3400, thorough_seeds=(2, 3))
    core.tlc_must_pass(res, "MC_C02")
    ctx.add_tlc(res, "exhaustive over the lattice; every transition emitted as an implementation test")
    ctx.theorems = THEOREMS
    ops = {}
    for tag, cs in res.cases:
        ops[cs["out"]["op"]] = ops.get(cs["out"]["op"], 0) + 1
        check_case(ctx, cs)
    check_high_order(ctx)
    for need in ("ders", "hodo"):
        if not ops.get(need):
            raise core.MachineryError("vacuous model: action %s never taken" % need)
    ctx.traces = len(res.cases)
    ctx.extra["transitions_by_action"] = ops
    ctx.rule = ("TLC enumerates (shape, parameter tuple, derivative order); expected tables are exact derivatives of the definition; for rational "
                "shapes of degree > 2 (exact quotient-rule values overflow TLC's integers) the exact HOMOGENEOUS derivatives are emitted and "
                "the replay checks the defining identity (wC)^(k) = A^(k) on the code's output, which pins every order uniquely")
    ctx.assumptions = ["1e-8 relative tolerance", "unit length / orthogonality of normalised vectors checked in floating point by the adapter",
                       "alternative evaluator family (A3.4/A3.8) exists for non-rational shapes only"]


def replay(ctx, v):
    if "high_order" in v["full"]:
        return check_high_order(ctx)
    check_case(ctx, v["full"])
