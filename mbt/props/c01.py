"""C01 - evaluated points equal the definition (all entry points, sampled grid size/order/corners)."""
from .. import core
from ..core import fr, frv, fl, close, close_seq
from ..adapter import build, shape_key

KIND = {1: "curve", 2: "surface", 3: "volume"}


def kv_kind(sh):
    ks = set()
    for p, U in zip(sh["deg"], sh["kv"]):
        if U[0] != [0, 1] or U[-1] != [1, 1]:
            ks.add("raw_kv")
        elif U[p] != U[0]:
            ks.add("unclamped")
    return sorted(ks)


def tags_of(sh):
    return [KIND[len(sh["deg"])], "rational" if sh["rat"] else "nonrational"] + kv_kind(sh)


def _try(ctx, site, tg, small, fn):
    try:
        return True, fn()
    except Exception as e:
        ctx.violate(site, tg + ["raises"], small, {"exception": repr(e)[:300]})
        return False, None


def set_sample_size(o, ns):
    if len(ns) == 1:
        o.sample_size = ns[0]
    elif len(ns) == 2:
        o.sample_size_u, o.sample_size_v = ns
    else:
        o.sample_size_u, o.sample_size_v, o.sample_size_w = ns


def check_case(ctx, cs):
    ctx.full = cs
    sh, o = cs["sh"], cs["out"]
    pd = len(sh["deg"])
    tg = tags_of(sh)
    cname = ("NURBS." if sh["rat"] else "BSpline.") + KIND[pd].capitalize()
    small = {"deg": sh["deg"], "kv": sh["kv"], "rat": sh["rat"], "dim": len(sh["P"][0])}
    if o["op"] == "single":
        prm = [float(x) for x in frv(o["prm"])]
        exp = frv(o["pt"])
        small = dict(small, prm=o["prm"])
        ctx.count(("single", shape_key(sh), tuple(map(tuple, o["prm"]))), sample={"op": "single", **small, "expected": o["pt"]})
        ok, obj = _try(ctx, cname + ".build", tg, small, lambda: build(sh))
        if not ok:
            return
        arg = prm[0] if pd == 1 else prm
        ok, r = _try(ctx, cname + ".evaluate_single", tg, small, lambda: obj.evaluate_single(arg))
        if ok and not close_seq(r, exp):
            ctx.violate(cname + ".evaluate_single", tg, small, {"expected": fl(exp), "got": r})
        # the same definition reached on other construction paths: the bisection span search option; and, for rational shapes,
        # the setters in the order "some unweighted points, the weights, the final unweighted points" on one object
        from geomdl import helpers as _helpers
        ok, ob = _try(ctx, cname + ".build", tg + ["find_span_func=binsearch"], small, lambda: build(sh, span_func=_helpers.find_span_binsearch))
        if ok:
            ok, r = _try(ctx, cname + ".evaluate_single", tg + ["find_span_func=binsearch"], small, lambda: ob.evaluate_single(arg))
            if ok and not close_seq(r, exp):
                ctx.violate(cname + ".evaluate_single", tg + ["find_span_func=binsearch"], small, {"expected": fl(exp), "got": r})
        ok, ob = _try(ctx, cname + ".build", tg + ["tuples_and_ints"], small, lambda: build(sh, alt_repr=True))
        if ok:
            # control points / knots given as tuples with Python ints, the parameter as an int where it is integral (tuple for surfaces)
            arg2 = (int(prm[0]) if float(prm[0]).is_integer() else prm[0]) if pd == 1 else tuple(int(x) if float(x).is_integer() else x for x in prm)
            ok, r = _try(ctx, cname + ".evaluate_single", tg + ["tuples_and_ints"], small, lambda: ob.evaluate_single(arg2))
            if ok and not close_seq(r, exp):
                ctx.violate(cname + ".evaluate_single", tg + ["tuples_and_ints"], small, {"expected": fl(exp), "got": r})
            ok, r = _try(ctx, cname + ".evaluate_list", tg + ["tuples_and_ints"], small, lambda: ob.evaluate_list((arg2,)))
            if ok and not close_seq(r, [exp]):
                ctx.violate(cname + ".evaluate_list", tg + ["tuples_and_ints"], small, {"expected": [fl(exp)], "got": r})
        if sh["rat"]:
            def by_setters():
                o2 = build(sh, by_setters=True)
                return o2.evaluate_single(arg), o2.evaluate_list([arg])[0]
            ok, r = _try(ctx, cname + ".evaluate_single", tg + ["built_by_setters"], small, by_setters)
            if ok and not (close_seq(r[0], exp) and close_seq(r[1], exp)):
                ctx.violate(cname + ".evaluate_single", tg + ["built_by_setters"], small, {"expected": fl(exp), "got": r[0]})
        ok, r = _try(ctx, cname + ".evaluate_list", tg, small, lambda: obj.evaluate_list([arg]))
        if ok and not close_seq(r, [exp]):
            ctx.violate(cname + ".evaluate_list", tg, small, {"expected": [fl(exp)], "got": r})
        if pd <= 2:
            ok, r = _try(ctx, cname + ".derivatives(order=0)", tg, small, lambda: obj.derivatives(*prm, order=0))
            if ok:
                got = r[0] if pd == 1 else r[0][0]
                if not close_seq(got, exp):
                    ctx.violate(cname + ".derivatives(order=0)", tg, small, {"expected": fl(exp), "got": got})
            # the order defaults to zero: the call without it returns the point alone
            ok, r = _try(ctx, cname + ".derivatives()", tg, small, lambda: obj.derivatives(*prm))
            if ok:
                shape_ok = (len(r) == 1) if pd == 1 else (len(r) == 1 and len(r[0]) == 1)
                if not shape_ok or not close_seq(r[0] if pd == 1 else r[0][0], exp):
                    ctx.violate(cname + ".derivatives()", tg, small, {"expected": fl(exp), "got": r})
        # evaluator called directly on the data dictionary
        ok, r = _try(ctx, "evaluators.evaluate", tg, small, lambda: obj.evaluator.evaluate(obj.data, start=arg, stop=arg))
        if ok and not close_seq(r, [exp]):
            ctx.violate("evaluators.evaluate", tg, small, {"expected": [fl(exp)], "got": r})
    elif o["op"] == "grid":
        ns = o["ns"]
        exp = [frv(p) for p in o["pts"]]
        small = dict(small, ns=ns)
        ctx.count(("grid", shape_key(sh), tuple(ns)), sample={"op": "grid", **small, "n": o["n"], "first": o["pts"][0], "last": o["pts"][-1]})
        for how in ("sample_size", "delta"):
            site = cname + ".evalpts[%s]" % how
            ok, obj = _try(ctx, cname + ".build", tg, small, lambda: build(sh))
            if not ok:
                return
            if how == "sample_size":
                ok, _ = _try(ctx, site, tg, small, lambda: set_sample_size(obj, ns))
            else:
                if "raw_kv" in tg:
                    continue   # delta is a parametric step; 1/n only means n samples on a unit domain
                def setd():
                    if pd == 1:
                        obj.delta = 1.0 / ns[0]
                    elif pd == 2:
                        obj.delta_u, obj.delta_v = 1.0 / ns[0], 1.0 / ns[1]
                    else:
                        obj.delta_u, obj.delta_v, obj.delta_w = [1.0 / n for n in ns]
                ok, _ = _try(ctx, site, tg, small, setd)
            if not ok:
                continue
            ok, pts = _try(ctx, site, tg, small, lambda: obj.evalpts)
            if not ok:
                continue
            if len(pts) != o["n"]:
                ctx.violate(site, tg + ["grid_size"], small, {"expected_len": o["n"], "got_len": len(pts)})
                continue
            if not close_seq(pts, exp):
                bad = [i for i, (a, b) in enumerate(zip(pts, exp)) if not close_seq(a, b)]
                ctx.violate(site, tg + ["grid_points"], small, {"first_bad_index": bad[0], "expected": fl(exp[bad[0]]), "got": pts[bad[0]], "n_bad": len(bad)})
            if how == "sample_size":
                # a sub-range is sampled, then the whole domain again by the argument-free call: the full grid is back
                def again():
                    dom = [obj.domain] if pd == 1 else list(obj.domain)
                    nm = ["start", "stop"] if pd == 1 else None
                    kw = {}
                    for d_, (lo_, hi_) in enumerate(dom):
                        mid = (lo_ + hi_) / 2.0
                        if pd == 1:
                            kw = {"start": mid, "stop": hi_}
                        else:
                            kw["start_" + "uvw"[d_]] = mid
                            kw["stop_" + "uvw"[d_]] = hi_
                    obj.evaluate(**kw)
                    part = len(obj.evalpts)
                    obj.evaluate()
                    return part, [list(q) for q in obj.evalpts]
                ok, r2 = _try(ctx, cname + ".evaluate", tg + ["after_subrange"], small, again)
                if ok and not (r2[0] == o["n"] and close_seq(r2[1], exp)):
                    ctx.violate(cname + ".evaluate", tg + ["after_subrange"], small, {"expected_first": fl(exp[0]), "got_first": r2[1][0] if r2[1] else None, "n": len(r2[1])})
            ok, ssz = _try(ctx, site, tg, small, lambda: obj.sample_size)
            if ok:
                got = [ssz] if pd == 1 else list(ssz)
                if got != list(ns):
                    ctx.violate(cname + ".sample_size", tg, small, {"expected": ns, "got": got})
    elif o["op"] == "list":
        prms = [[float(x) for x in frv(p)] for p in o["prms"]]
        exp = [frv(p) for p in o["pts"]]
        ctx.count(("list", shape_key(sh)), sample={"op": "list", **small, "prms": o["prms"]})
        ok, obj = _try(ctx, cname + ".build", tg, small, lambda: build(sh))
        if not ok:
            return
        args = [p[0] for p in prms] if pd == 1 else prms
        ok, r = _try(ctx, cname + ".evaluate_list", tg + ["out_of_range_skipped"], small, lambda: obj.evaluate_list(args))
        if ok and not close_seq(r, exp):
            ctx.violate(cname + ".evaluate_list", tg + ["out_of_range_skipped"], small, {"expected": fl(exp), "got": r})
    else:
        raise core.MachineryError("unknown op " + o["op"])


THEOREMS = ["T_WellFormed", "T_Definition (local tensor sum = sum over all control points with the global basis)",
            "T_Grid (size = product of sample sizes; first/last parameter = domain corners)",
            "T_Corners (clamped shapes start/end on first/last control point)"]


def run(ctx):
    res = core.run_model(ctx, "MC_C01", 3000, thorough_seeds=(2, 3))
    core.tlc_must_pass(res, "MC_C01")
    ctx.add_tlc(res, "exhaustive over the shape lattice; every transition emitted as an implementation test")
    ctx.theorems = THEOREMS
    ops, kinds = {}, {}
    for tag, cs in res.cases:
        ops[cs["out"]["op"]] = ops.get(cs["out"]["op"], 0) + 1
        k = " ".join(tags_of(cs["sh"]))
        kinds[k] = kinds.get(k, 0) + 1
        check_case(ctx, cs)
    for need in ("single", "grid", "list"):
        if not ops.get(need):
            raise core.MachineryError("vacuous model: action %s never taken" % need)
    ctx.traces = len(res.cases)
    ctx.extra["transitions_by_action"] = ops
    ctx.extra["cases_by_shape_class"] = kinds
    ctx.rule = ("TLC enumerates shapes of the lattice (curves/surfaces/volumes, rational or not, clamped/unclamped/raw knot vectors) and, per "
                "shape, every parameter tuple of knots and span samples, sample-size tuples and one parameter list; distinct = distinct "
                "(op, shape, argument); every case compares code output with the exact definition")
    ctx.assumptions = ["floats compared with exact rationals at 1e-9 relative", "control nets are fixed generic integer nets (evaluation is linear in the net)",
                       "weights from {1/2,1,2,3}"]


def replay(ctx, v):
    check_case(ctx, v["full"])
