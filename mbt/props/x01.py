"""X01 - behaviour outside the twenty listed properties (Extras.tla): drawing-order helpers, remaining vector helpers, planar
predicates of the trimming module, voxel faces, control-point grid, adding a dimension.  Same protocol as the property checks, but
the suite is NOT claimed in MANIFEST.json: a deviation here is an observation about geomdl, not a violation of a listed property."""
from .. import core
from ..core import fr, frv, fl, close, close_seq
from .c01 import _try


def pts(P):
    return [[float(x) for x in frv(p)] for p in P]


def check_case(ctx, cs):
    from geomdl import utilities, linalg, trimming, voxelize, CPGen, operations, BSpline, elements
    ctx.full = cs
    c, o = cs["c"], cs["out"]
    op = o["op"]
    su, sv = c["su"], c["sv"]
    tg = [op]
    small = {"op": op, "su": su, "sv": sv}
    if op == "zigzag":
        ctx.count((op, su, sv), sample=small)
        ok, r = _try(ctx, "utilities.make_zigzag", tg, small, lambda: utilities.make_zigzag(pts(o["pts"]), o["cols"]))
        if ok and not close_seq([list(x) for x in r], pts(o["res"])):
            ctx.violate("utilities.make_zigzag", tg, small, {"got": r[:4]})
    elif op == "quad":
        ctx.count((op, su, sv), sample=small)
        ok, r = _try(ctx, "utilities.make_quad", tg, small, lambda: utilities.make_quad(pts(o["pts"]), su, sv))
        if ok and not close_seq([list(x) for x in r], pts(o["res"])):
            ctx.violate("utilities.make_quad", tg, small, {"got": r[:4]})
    elif op == "quadtree":
        ex = o["extrapolate"]
        small = dict(small, extrapolate=ex)
        ctx.count((op, su, sv, ex), sample=small)
        ok, r = _try(ctx, "utilities.make_quadtree", tg, small, lambda: utilities.make_quadtree(pts(o["pts"]), su, sv, extrapolate=ex))
        if ok and not close_seq([[list(p) for p in node] for node in r], [pts(node) for node in o["res"]]):
            ctx.violate("utilities.make_quadtree", tg, small, {"got0": r[0]})
    elif op == "vectors":
        vs = pts(o["vs"])
        k = float(fr(o["k"]))
        n = len(vs)
        small = dict(small, n=n, k=o["k"])
        ctx.count((op, n, str(o["k"])), sample=small)
        a, b = pts([o["scal"][0], o["scal"][1]])
        a0 = [x / k for x in a]
        b0 = [x / k for x in b]
        tests = [("linalg.vector_mean", lambda: linalg.vector_mean(*vs), fl(frv(o["mean"]))),
                 ("linalg.point_mid", lambda: linalg.point_mid(a0, b0), fl(frv(o["mid"]))),
                 ("linalg.vector_generate", lambda: linalg.vector_generate(a0, b0), fl(frv(o["gen"]))),
                 ("linalg.point_translate", lambda: linalg.point_translate(a0, fl(frv(o["gen"]))), b0),
                 ("linalg.vector_multiply", lambda: linalg.vector_multiply(a0, k), a),
                 ("linalg.matrix_scalar", lambda: linalg.matrix_scalar([a0, b0], k), [a, b])]
        for site, fn, e in tests:
            ok, r = _try(ctx, site, tg, small, fn)
            if ok and not close_seq([list(x) for x in r] if isinstance(r[0], (list, tuple)) else list(r), e):
                ctx.violate(site, tg, small, {"expected": e, "got": r})
        # sum with a coefficient: the third vector of the spec's case is Pt(n + 2); rebuild it from the expected value
        # (v1 + k v2 = sum  =>  v2 = (sum - v1) / k), then ask the library for the sum
        s_exp = fl(frv(o["sum"]))
        v2 = [(s - x) / k for s, x in zip(s_exp, a0)]
        ok, r = _try(ctx, "linalg.vector_sum", tg, small, lambda: linalg.vector_sum(a0, v2, k))
        if ok and not close_seq(list(r), s_exp):
            ctx.violate("linalg.vector_sum", tg, small, {"expected": s_exp, "got": r})
        # the angle between two vectors: its cosine is the normalised dot product
        import math
        ok, r = _try(ctx, "linalg.vector_angle_between", tg, small, lambda: linalg.vector_angle_between(a0, b0, degrees=False))
        if ok:
            cs_ = sum(x * y for x, y in zip(a0, b0)) / math.sqrt(sum(x * x for x in a0) * sum(y * y for y in b0))
            if abs(math.cos(r) - cs_) > 1e-9 or not (0.0 <= r <= math.pi + 1e-12):
                ctx.violate("linalg.vector_angle_between", tg, small, {"cos_expected": cs_, "angle": r})
            ok, rd = _try(ctx, "linalg.vector_angle_between", tg + ["degrees"], small, lambda: linalg.vector_angle_between(a0, b0))
            if ok and abs(rd - math.degrees(r)) > 1e-9:
                ctx.violate("linalg.vector_angle_between", tg + ["degrees"], small, {"radians": r, "degrees": rd})
    elif op == "frange":
        small = {"op": op, "start": o["start"], "stop": o["stop"], "step": o["step"]}
        ctx.count((op, str(small)), sample=small)
        ok, r = _try(ctx, "linalg.frange", tg, small, lambda: list(linalg.frange(float(fr(o["start"])), float(fr(o["stop"])), float(fr(o["step"])))))
        if ok and not close_seq(r, frv(o["res"])):
            ctx.violate("linalg.frange", tg, small, {"expected": fl(frv(o["res"])), "got": r})
    elif op == "parbox":
        dom = [[float(fr(x)) for x in d] for d in o["dom"]]
        small = {"op": op, "dom": o["dom"], "last": o["last"]}
        ctx.count((op, str(small)), sample=small)
        ok, r = _try(ctx, "trimming.get_par_box", tg, small, lambda: trimming.get_par_box(dom, o["last"]))
        if ok and not close_seq([list(x) for x in r], pts(o["res"])):
            ctx.violate("trimming.get_par_box", tg, small, {"got": r})
    elif op == "ccw":
        p = pts(o["p"])
        small = {"op": op, "p": o["p"]}
        ctx.count((op, str(o["p"])), sample=small)
        ok, r = _try(ctx, "trimming.detect_ccw", tg, small, lambda: trimming.detect_ccw(p[0], p[1], p[2], 1e-9))
        if ok and r != o["sense"]:
            ctx.violate("trimming.detect_ccw", tg, small, {"expected": o["sense"], "got": r})
        ok, r = _try(ctx, "trimming.detect_intersection", tg, small, lambda: trimming.detect_intersection(p[0], p[1], p[2], 1e-9))
        if ok and bool(r) != bool(o["online"]):
            ctx.violate("trimming.detect_intersection", tg, small, {"expected": o["online"], "got": r})
    elif op == "bbfaces":
        v = pts(o["v"])
        small = {"op": op, "v": o["v"]}
        ctx.count((op, str(o["v"])), sample=small)
        ok, r = _try(ctx, "voxelize.convert_bb_to_faces", tg, small, lambda: voxelize.convert_bb_to_faces([v, v]))
        exp = [pts(f) for f in o["faces"]]
        if ok and not (len(r) == 2 and close_seq([[list(q) for q in f] for f in r[0]], exp) and close_seq([[list(q) for q in f] for f in r[1]], exp)):
            ctx.violate("voxelize.convert_bb_to_faces", tg, small, {"got0": r[0][0] if r else r})
    elif op == "grid":
        small = {"op": op, "sx": o["sx"], "nu": o["nu"], "nv": o["nv"]}
        ctx.count((op, str(small)), sample=small)

        def gen():
            g = CPGen.Grid(float(fr(o["sx"])), float(fr(o["sy"])), z_value=float(fr(o["z"])))
            g.generate(o["nu"], o["nv"])
            return [[list(p) for p in row] for row in g.grid], len(g)
        ok, r = _try(ctx, "CPGen.Grid.generate", tg, small, gen)
        if ok:
            exp = [pts(row) for row in o["res"]]
            if not close_seq(r[0], exp) or r[1] != (o["nu"] + 1) * (o["nv"] + 1):
                ctx.violate("CPGen.Grid.generate", tg, small, {"got_row0": r[0][0] if r[0] else r[0], "len": r[1]})
    elif op == "adddim":
        off = float(fr(o["off"]))
        small = {"op": op, "off": o["off"]}
        ctx.count((op, str(o["off"])), sample=small)
        P = pts(o["P"])

        def run(inplace):
            crv = BSpline.Curve()
            crv.degree = 2
            crv.ctrlpts = [list(p) for p in P]
            crv.knotvector = [0, 0, 0, 0.5, 1, 1, 1]
            r = operations.add_dimension(crv, offset=off, inplace=inplace)
            return [list(p) for p in r.ctrlpts], r.dimension, [list(p) for p in crv.ctrlpts], r is crv
        for inplace in (False, True):
            ok, r = _try(ctx, "operations.add_dimension", tg + ["inplace=%s" % inplace], small, lambda: run(inplace))
            if ok:
                if not close_seq(r[0], pts(o["res"])) or r[1] != 4 or r[3] != inplace or (not inplace and not close_seq(r[2], P)):
                    ctx.violate("operations.add_dimension", tg + ["inplace=%s" % inplace], small, {"got": r[0][:2], "dimension": r[1]})
        # vertex arithmetic of the mesh elements
        va, vb = elements.Vertex(*P[0]), elements.Vertex(*P[1])
        va.uv, vb.uv = [0.25, 0.5], [0.5, 1.0]
        try:
            s_, d_, q_ = va + vb, va - vb, va / 2
            okv = (close_seq(list(s_.data), [x + y for x, y in zip(P[0], P[1])]) and close_seq(list(d_.data), [x - y for x, y in zip(P[0], P[1])])
                   and close_seq(list(q_.data), [x / 2 for x in P[0]]) and close_seq(list(s_.uv), [0.75, 1.5]) and close_seq(list(q_.uv), [0.125, 0.25]))
            if not okv:
                ctx.violate("elements.Vertex arithmetic", tg, small, {"sum": list(s_.data), "diff": list(d_.data), "half": list(q_.data)})
        except Exception as e:
            ctx.violate("elements.Vertex arithmetic", tg + ["raises"], small, {"exception": repr(e)[:200]})
    else:
        raise core.MachineryError("unknown op " + op)


THEOREMS = ["T_ZigZag: a re-ordering whose consecutive points are grid neighbours", "T_Quad: every point exactly twice", "T_QuadTree",
            "T_Mean", "T_FRange (including the overshoot of up to half a step)", "T_Faces: six planar faces on eight corners", "T_CCW"]


def run(ctx):
    res = core.run_tlc("MC_X01", "MC_X01_%s.cfg" % ctx.tier, timeout=900, workers=4)
    core.tlc_must_pass(res, "MC_X01")
    ctx.add_tlc(res, "cases for Extras.tla")
    ctx.theorems = THEOREMS
    ops = {}
    for tag, cs in res.cases:
        ops[cs["out"]["op"]] = ops.get(cs["out"]["op"], 0) + 1
        check_case(ctx, cs)
    if len(ops) < 10:
        raise core.MachineryError("vacuous model: %s" % ops)
    ctx.traces = len(res.cases)
    ctx.extra["cases"] = ops
    ctx.rule = "one case per (helper, sizes / arguments)"
    ctx.assumptions = ["suite outside the listed properties: reported as observations about geomdl"]


def replay(ctx, v):
    check_case(ctx, v["full"])
