"""C17 - results do not depend on configuration choices: span search function, evaluator family, knot normalisation with any
affine knot range, number of worker processes, cache size from the environment."""
import json, os, subprocess, sys
from .. import core
from ..core import fr, frv, fl, close_seq
from ..adapter import build, shape_key
from .c01 import KIND, _try, tags_of

CACHE_PROBE = r'''
import json, sys
from geomdl import BSpline, NURBS, operations, helpers, linalg
c = NURBS.Curve(); c.degree = 3
c.ctrlptsw = [[0, 0, 1], [2, 4, 2], [2, 0.5, 0.5], [3, 3, 1], [6, 2, 2], [5, 0, 1]]
c.knotvector = [0, 0, 0, 0, 0.25, 0.5, 1, 1, 1, 1]
out = {"p0": c.evaluate_single(0.3)}
for u in (0.1, 0.3, 0.3, 0.7, 0.9, 0.5):
    operations.insert_knot(c, [u], [1])
out["kv"] = list(c.knotvector); out["P"] = [list(p) for p in c.ctrlptsw]; out["p1"] = c.evaluate_single(0.3)
for u in (0.1, 0.7):
    operations.remove_knot(c, [u], [1])
out["P2"] = [list(p) for p in c.ctrlptsw]
out["binom"] = [linalg.binomial_coefficient(n, k) for n in range(1, 8) for k in range(n + 1)]
out["inv"] = [linalg.matrix_inverse([[0.0, 1.0], [1.0, 0.0]]), linalg.matrix_inverse([[2.0, 1.0], [1.0, 3.0]]), linalg.matrix_identity(2)]
out["elev"] = helpers.degree_elevation(3, [[0.0, 0.0], [1.0, 2.0], [3.0, 2.0], [4.0, 0.0]], num=2)
from geomdl import knotvector
g1 = knotvector.generate(3, 8); g1[5] = 99.0; g1.append(5.0)
_ = knotvector.generate(2, 6)
out["generate_again"] = knotvector.generate(3, 8)
out["generate_ok"] = knotvector.check(3, out["generate_again"], 8)
print(json.dumps(out))
'''


def check_roundtrip(ctx, cs):
    """insert + remove in one direction under every knot range; directions with equal knot vectors share ONE list object"""
    from geomdl import helpers, operations
    from ..adapter import project, same_def
    ctx.full = cs
    sh, o = cs["sh"], cs["out"]
    d, r = o["d"], o["r"]
    tg = tags_of(sh) + ["roundtrip", "dir=" + "uv"[d - 1]]
    small = {"deg": sh["deg"], "kv": sh["kv"], "rat": sh["rat"], "d": d, "u": o["u"], "r": r}
    ctx.count(("roundtrip", shape_key(sh), d, r), sample={"op": "roundtrip", **small})
    configs = [(["normalize_kv=True"], sh, o["mid"], o["u"], True, o["both"], o["oneleft"])]
    for im in o["images"]:
        configs.append((["normalize_kv=False", "a=%g" % float(fr(im["a"]))], im["shape"], im["mid"], im["u"], False, im["both"], im["oneleft"]))
    site = "operations.insert_knot/remove_knot"
    for ctag, s0, mid, u, norm, both, oneleft in configs:
        for share in (False, True):
            t2 = tg + ctag + (["shared_list"] if share else [])
            try:
                # removal from ONE direction of a surface refined in both (equal knot vectors, possibly one list object)
                ob2 = build(both, normalize_kv=norm, share_kv=share)
                prm, num = [None, None], [0, 0]
                prm[d - 1], num[d - 1] = float(fr(u)), r
                operations.remove_knot(ob2, prm, num)
                bad = same_def(project(ob2), oneleft)
                if bad:
                    ctx.violate(site, t2 + ["remove_one_direction"], small, {"field": bad, "kv": [list(U) for U in ob2._knot_vector]})
                    continue
            except Exception as e:
                ctx.violate(site, t2 + ["remove_one_direction", "raises"], small, {"exception": repr(e)[:200]})
                continue
            try:
                obj = build(s0, normalize_kv=norm, share_kv=share)
                prm, num = [None, None], [0, 0]
                prm[d - 1], num[d - 1] = float(fr(u)), r
                operations.insert_knot(obj, prm, num)
                bad = same_def(project(obj), mid)
                if bad:
                    ctx.violate(site, t2 + ["after_insert"], small, {"field": bad})
                    continue
                operations.remove_knot(obj, prm, num)
                bad = same_def(project(obj), s0)
                if bad:
                    ctx.violate(site, t2 + ["after_remove"], small, {"field": bad, "kv": [list(U) for U in obj._knot_vector]})
                    continue
                ref = build(s0, normalize_kv=norm)
                obj.sample_size = 3
                ref.sample_size = 3
                if not close_seq([list(x) for x in obj.evalpts], [list(x) for x in ref.evalpts]):
                    ctx.violate(site, t2 + ["evalpts"], small, {})
            except Exception as e:
                ctx.violate(site, t2 + ["raises"], small, {"exception": repr(e)[:200]})


def check_case(ctx, cs):
    from geomdl import helpers, evaluators
    ctx.full = cs
    if cs["out"]["op"] == "roundtrip":
        return check_roundtrip(ctx, cs)
    sh, o = cs["sh"], cs["out"]
    pd = len(sh["deg"])
    tg = tags_of(sh)
    small = {"deg": sh["deg"], "kv": sh["kv"], "rat": sh["rat"], "prm": o["prm"]}
    ctx.count(("query", shape_key(sh), tuple(map(tuple, o["prm"]))), sample={"op": "query", **small, "pt": o["pt"]})
    exp = frv(o["pt"])
    prm = [float(x) for x in frv(o["prm"])]

    def arg(p):
        return p[0] if pd == 1 else list(p)
    configs = []
    for sname, sf in (("linear", helpers.find_span_linear), ("binary", helpers.find_span_binsearch)):
        configs.append((["span=" + sname, "normalize_kv=True"], lambda sf=sf: build(sh, span_func=sf), prm, 1.0))
        for im in o["images"]:
            a = float(fr(im["a"]))
            iprm = [float(x) for x in frv(im["prm"])]
            configs.append((["span=" + sname, "normalize_kv=False", "a=%g" % a], lambda sf=sf, im=im: build(im["shape"], span_func=sf, normalize_kv=False), iprm, a))
            # the same raw knot vectors given to an object that normalises them: original parameters apply again
            configs.append((["span=" + sname, "normalize_kv=True", "raw_input"], lambda sf=sf, im=im: build(im["shape"], span_func=sf, normalize_kv=True), prm, 1.0))
    # the same query with control points / knots as tuples with Python ints and integral parameter values as ints
    configs.append((["normalize_kv=True", "tuples_and_ints"], lambda: build(sh, alt_repr=True), [int(x) if float(x).is_integer() else x for x in prm], 1.0))
    for ctag, mk, p, a in configs:
        site = ("NURBS." if sh["rat"] else "BSpline.") + KIND[pd].capitalize() + ".evaluate_single"
        ok, obj = _try(ctx, site, tg + ctag + ["build"], small, mk)
        if not ok:
            continue
        ok, r = _try(ctx, site, tg + ctag, small, lambda: obj.evaluate_single(arg(p)))
        if ok and not close_seq(r, exp):
            ctx.violate(site, tg + ctag, small, {"expected": fl(exp), "got": r})
        # the list entry point: every parameter of the list is inside the domain of this configuration, none may be dropped
        ok, r = _try(ctx, site.replace("evaluate_single", "evaluate_list"), tg + ctag, small, lambda: obj.evaluate_list([arg(p), arg(p)]))
        if ok and not close_seq([list(x) for x in r], [exp, exp]):
            ctx.violate(site.replace("evaluate_single", "evaluate_list"), tg + ctag, small, {"expected_points": 2, "got_points": len(r), "got": r[:1]})
        # sampled grid under this configuration: same points
        if (p is prm or "tuples_and_ints" in ctag) and pd <= 2:
            def grid():
                obj.sample_size = 3
                return [list(x) for x in obj.evalpts]
            ok, g = _try(ctx, site.replace("evaluate_single", "evalpts"), tg + ctag, small, grid)
            if ok:
                ref = build(sh)
                ref.sample_size = 3
                if not close_seq(g, [list(x) for x in ref.evalpts]):
                    ctx.violate(site.replace("evaluate_single", "evalpts"), tg + ctag, small, {"got0": g[0]})
        # partial-range evaluation from the query parameter to the end of the domain: the same points under every knot range
        if pd <= 2 and "span=linear" in ctag:
            def part(ob, q):
                ob.sample_size = 3
                if pd == 1:
                    ob.evaluate(start=q[0], stop=ob.domain[1])
                else:
                    ob.evaluate(start_u=q[0], stop_u=ob.domain[0][1], start_v=q[1], stop_v=ob.domain[1][1])
                return [list(x) for x in ob.evalpts]
            try:
                got_part = part(mk(), p)
                ref_part = part(build(sh), prm)
                if not close_seq(got_part, ref_part):
                    ctx.violate(site.replace("evaluate_single", "evaluate(start, stop)"), tg + ctag, small, {"got0": got_part[0], "expected0": ref_part[0]})
            except Exception as e:
                ctx.violate(site.replace("evaluate_single", "evaluate(start, stop)"), tg + ctag + ["raises"], small, {"exception": repr(e)[:200]})
        # a DEcreasing range (start > stop): the points are those of the single evaluations at the same parameters, in that order
        if pd <= 2:
            try:
                ob = mk()
                ob.sample_size = 3
                if pd == 1:
                    lo, hi = ob.domain
                    ob.evaluate(start=hi, stop=lo)
                    want = [ob.evaluate_single(t) for t in (hi, (hi + lo) / 2.0, lo)]
                else:
                    (lu, hu), (lv, hv) = ob.domain
                    ob.evaluate(start_u=hu, stop_u=lu, start_v=hv, stop_v=lv)
                    want = [ob.evaluate_single([a2, b2]) for a2 in (hu, (hu + lu) / 2.0, lu) for b2 in (hv, (hv + lv) / 2.0, lv)]
                got_desc = [list(x) for x in ob.evalpts]
                if not close_seq(got_desc, [list(x) for x in want]):
                    ctx.violate(site.replace("evaluate_single", "evaluate(start > stop)"), tg + ctag, small, {"got0": got_desc[0], "expected0": list(want[0])})
            except Exception as e:
                ctx.violate(site.replace("evaluate_single", "evaluate(start > stop)"), tg + ctag + ["raises"], small, {"exception": repr(e)[:200]})
        # derivatives: default and alternative evaluator, scaled by a^-k on the raw range
        if not sh["rat"] and pd <= 2 and o["ders"]:
            for ename, ev in (("default", None), ("alternative", evaluators.CurveEvaluator2() if pd == 1 else evaluators.SurfaceEvaluator2())):
                try:
                    ob2 = mk()
                    if ev is not None:
                        ob2.evaluator = ev
                    got = ob2.derivatives(*p, order=2)
                    got1 = ob2.derivatives(*p, order=1)         # (a lower order requested on its own gives the same leading entries)
                except Exception as e:
                    ctx.violate(site.replace("evaluate_single", "derivatives"), tg + ctag + ["evaluator=" + ename, "raises"], small, {"exception": repr(e)[:200]})
                    continue
                okd = True
                try:
                    if pd == 1:
                        okd = close_seq([list(x) for x in got1], [list(x) for x in got[:2]], 1e-9)
                    else:
                        okd = close_seq([list(got1[0][0]), list(got1[1][0]), list(got1[0][1])], [list(got[0][0]), list(got[1][0]), list(got[0][1])], 1e-9)
                except Exception:
                    okd = False
                if pd == 1:
                    for k in range(3):
                        e = [float(x) / (a ** k) for x in frv(o["ders"][k])]
                        okd = okd and close_seq(got[k], e, 1e-8)
                else:
                    for k in range(3):
                        for l in range(3 - k):
                            e = [float(x) / (a ** (k + l)) for x in frv(o["ders"][k][l])]
                            okd = okd and close_seq(got[k][l], e, 1e-8)
                if not okd:
                    ctx.violate(site.replace("evaluate_single", "derivatives"), tg + ctag + ["evaluator=" + ename], small, {"got": got[1] if pd == 1 else got[1][0]})


def check_pools(ctx):
    """process pools: the result is the sequential result whatever the number of worker processes"""
    from geomdl import multi, voxelize
    from .c15 import SURFS
    tg = ["num_procs"]
    def cont():
        c = multi.SurfaceContainer([build(SURFS[0]), build(SURFS[1]), build(SURFS[0])])
        c.sample_size = 4
        return c
    ref = cont()
    ref.tessellate(num_procs=1)
    rv = [list(v.data) for v in ref.vertices]
    rf = [list(f.vertex_ids) for f in ref.faces]
    vs = build(SURFS[1])
    vs.sample_size = 6
    g0, f0 = voxelize.voxelize(vs, grid_size=(3, 3, 3), num_procs=1)
    # documented options travel to the worker processes: voxel padding, and the sense of trim curves (custom data of the trims)
    try:
        from geomdl import tessellate as _tsl, BSpline as _B
        gp1, fp1 = voxelize.voxelize(build(SURFS[1]), grid_size=(4, 4, 4), padding=0.1, num_procs=1)
        for n_ in (2, 3):
            gp, fp = voxelize.voxelize(build(SURFS[1]), grid_size=(4, 4, 4), padding=0.1, num_procs=n_)
            if list(fp) != list(fp1):
                ctx.violate("voxelize.voxelize", tg + ["padding=0.1", "n=%d" % n_], {"num_procs": n_, "padding": 0.1}, {"filled_single": sum(fp1), "filled_multi": sum(fp)})

        def trimmed(rev):
            srfs = []
            for k_ in range(2):
                s_ = build(SURFS[k_])
                t_ = _B.Curve()
                t_.degree = 1
                t_.ctrlpts = [[0.25, 0.25], [0.75, 0.25], [0.75, 0.75], [0.25, 0.75], [0.25, 0.25]]
                t_.knotvector = [0, 0, 0.25, 0.5, 0.75, 1, 1]
                t_.sample_size = 5
                t_.opt = ["reversed", rev]
                s_.trims = [t_]
                srfs.append(s_)
            cc = multi.SurfaceContainer(srfs)
            cc.sample_size = 9
            cc.tessellator = _tsl.TrimTessellate()
            return cc
        for rev in (0, 1):
            c1 = trimmed(rev)
            c1.tessellate(num_procs=1)
            ref_ = (len(c1.vertices), len(c1.faces))
            for n_ in (2, 3):
                cn = trimmed(rev)
                cn.tessellate(num_procs=n_)
                if (len(cn.vertices), len(cn.faces)) != ref_:
                    ctx.violate("multi.SurfaceContainer.tessellate", tg + ["trimmed", "reversed=%d" % rev, "n=%d" % n_], {"num_procs": n_, "reversed": rev},
                                {"single_process": ref_, "multi_process": (len(cn.vertices), len(cn.faces))})
    except Exception as e:
        ctx.violate("multiprocessing", tg + ["options", "raises"], {}, {"exception": repr(e)[:300]})
    for n in (2, 4, 8):
        for rep in range(2):
            ctx.count(("pool", n, rep), sample={"op": "num_procs", "n": n})
            try:
                c = cont()
                c.tessellate(num_procs=n)
                if [list(v.data) for v in c.vertices] != rv or [list(f.vertex_ids) for f in c.faces] != rf or [v.id for v in c.vertices] != list(range(len(rv))):
                    ctx.violate("multi.SurfaceContainer.tessellate", tg + ["n=%d" % n], {"num_procs": n}, {"n_vertices": len(c.vertices), "expected": len(rv)})
                v2 = build(SURFS[1])
                v2.sample_size = 6
                g, f = voxelize.voxelize(v2, grid_size=(3, 3, 3), num_procs=n)
                if list(f) != list(f0) or g != g0:
                    ctx.violate("voxelize.voxelize", tg + ["n=%d" % n], {"num_procs": n}, {"filled": list(f), "expected": list(f0)})
            except Exception as e:
                ctx.violate("multiprocessing", tg + ["n=%d" % n, "raises"], {"num_procs": n}, {"exception": repr(e)[:300]})


def check_cache_sizes(ctx):
    """GEOMDL_CACHE_SIZE in {unset, 1, 16, 1024}: a fresh interpreter per value, identical answers"""
    outs = {}
    for val in (None, "1", "16", "1024"):
        ctx.count(("cache", val), sample={"op": "GEOMDL_CACHE_SIZE", "value": val})
        env = dict(os.environ)
        env.pop("GEOMDL_CACHE_SIZE", None)
        if val is not None:
            env["GEOMDL_CACHE_SIZE"] = val
        env["PYTHONPATH"] = core.REPO
        p = subprocess.run([sys.executable, "-c", CACHE_PROBE], env=env, capture_output=True, text=True, timeout=120)
        tg = ["cache_size=" + str(val)]
        if p.returncode != 0:
            ctx.violate("GEOMDL_CACHE_SIZE", tg + ["raises"], {"GEOMDL_CACHE_SIZE": val}, {"stderr": p.stderr.strip().split("\n")[-1][:300]})
            continue
        outs[val] = json.loads(p.stdout.strip().split("\n")[-1])
    for val, o in outs.items():
        if o.get("generate_ok") is not True or len(o.get("generate_again", [])) != 12:
            ctx.violate("knotvector.generate", ["cache_size=" + str(val), "second_call"], {"GEOMDL_CACHE_SIZE": val}, {"got": o.get("generate_again")})
    if None in outs:
        for val, o in outs.items():
            if val is not None and not close_seq(_flat(o), _flat(outs[None]), 1e-12):
                ctx.violate("GEOMDL_CACHE_SIZE", ["cache_size=" + val], {"GEOMDL_CACHE_SIZE": val}, {"differs_from_unset": True})
    # (when the probe fails with the variable unset, that failure has been recorded above as a violation: a valid call raised)


def _flat(x):
    if isinstance(x, dict):
        return [_flat(x[k]) for k in sorted(x)]
    if isinstance(x, list):
        return [_flat(t) for t in x]
    return x


THEOREMS = ["T_Affine: Point_{aU+b}(a u + b) = Point_U(u) and derivatives scale by a^-k (exact)", "Pool: ResultIsMap, NoDoubleWork, Terminates "
            "(all interleavings of 3 workers, 5 tasks, chunk 2)", "Cache: ReturnsFunctionValue for capacities 0, 1, 2, 16 (and refuted for the by-reference variant)"]


def run(ctx):
    res = core.run_model(ctx, "MC_C17", 1800, thorough_seeds=(2, 3))
    core.tlc_must_pass(res, "MC_C17")
    ctx.add_tlc(res, "queries x affine knot ranges")
    rp = core.run_tlc("Pool", "Pool.cfg", timeout=600, workers=8)
    core.tlc_must_pass(rp, "Pool")
    ctx.add_tlc(rp, "pool.map: all interleavings, safety + termination under weak fairness")
    for cap in (0, 1, 2, 16):
        rc = core.run_tlc("Cache", "Cache_%d.cfg" % cap, timeout=300, workers=4)
        core.tlc_must_pass(rc, "Cache_%d" % cap)
        ctx.add_tlc(rc, "LRU memo of capacity %d in front of a pure function" % cap)
    rb = core.run_tlc("Cache", "Cache_byref.cfg", timeout=300, workers=4)
    if rb.ok or "ReturnsFunctionValue" not in (rb.error or "") + rb.stdout_tail:
        raise core.MachineryError("the by-reference cache variant was expected to violate ReturnsFunctionValue")
    ctx.add_tlc(rb, "by-reference variant: invariant refuted as expected (documents why cached mutable values must be copied)")
    ctx.theorems = THEOREMS
    kinds = {}
    for tag, cs in res.cases:
        k = KIND[len(cs["sh"]["deg"])] if cs["out"]["op"] == "query" else "roundtrip"
        kinds[k] = kinds.get(k, 0) + 1
        check_case(ctx, cs)
    if len(kinds) < 4:
        raise core.MachineryError("vacuous model: %s" % kinds)
    check_pools(ctx)
    check_cache_sizes(ctx)
    ctx.traces = len(res.cases)
    ctx.extra["queries_by_kind"] = kinds
    ctx.rule = ("every query is evaluated under span search {linear, binary} x {normalised, three raw affine knot ranges, raw input normalised}, "
                "derivatives under both evaluator families; pools with 1/2/4/8 processes; one fresh interpreter per cache size")
    ctx.assumptions = ["real process schedules are sampled (2 repetitions per pool size), the Pool model is exhaustive", "1e-9 relative tolerance"]


def replay(ctx, v):
    check_case(ctx, v["full"])
