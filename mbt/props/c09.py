"""C09 - weights, weighted and unweighted control points stay mutually consistent (setter/reader histories on rational shapes,
helper conversions, type conversion, weighted grid)."""
import itertools
from .. import core
from ..core import fr, frv, fl, close_seq
from ..adapter import build, project, same_def, shape_key
from ..histories import replay_history, read_view
from .c01 import tags_of, KIND, _try
from . import c04


def pts(x):
    return [[float(t) for t in frv(p)] for p in x]


def check_history(ctx, cs):
    ctx.full = cs
    sh0, hist, exp, views = cs["sh0"], cs["hist"], cs["obj"], cs["views"]
    kind = KIND[len(sh0["deg"])]
    tg = [kind, "depth=%d" % len(hist), "last=" + hist[-1]["a"]] + sorted({"has_" + s["a"] for s in hist[:-1]})
    small = {"kind": kind, "hist": [{k: v for k, v in s.items() if k in ("a", "k", "c", "v", "i", "keep")} for s in hist]}
    ctx.count(c04.hist_key(cs), sample={"kind": kind, "hist": small["hist"], "weights": views["weights"]})
    site = "NURBS.%s.ctrlpts/weights/ctrlptsw" % kind.capitalize()
    expv = {"ctrlpts": pts(views["ctrlpts"]), "weights": [float(fr(w)) for w in views["weights"]], "ctrlptsw": pts(views["ctrlptsw"])}
    # the order in which the three views are read at the end is varied too
    orders = [("ctrlpts", "weights", "ctrlptsw"), ("ctrlptsw", "weights", "ctrlpts")]
    for order in orders:
        try:
            obj, infos = replay_history(sh0, hist, "operations")
        except Exception as e:
            ctx.violate(site, tg + ["raises"], small, {"exception": repr(e)[:300]})
            return
        bad = same_def(project(obj), exp)
        if bad:
            ctx.violate(site, tg + ["definition"], small, {"field": bad})
            return
        for inf in infos:
            f = inf.get("fork")
            if f and not (close_seq(f["weights"], f["expected_weights"]) and close_seq(f["ctrlpts"], f["expected_ctrlpts"])):
                ctx.violate(site, tg + ["fork_other"], small, {"expected": f["expected_weights"][:3], "got": f["weights"][:3]})
                return
        for v in order:
            try:
                got = read_view(obj, v)
            except Exception as e:
                ctx.violate(site, tg + ["raises", "read_" + v], small, {"exception": repr(e)[:300]})
                return
            if not close_seq(got, expv[v]):
                ctx.violate(site, tg + ["read_" + v], small, {"view": v, "expected": expv[v][:3], "got": got[:3]})
                return
        if order is orders[0] and len(exp["kv"][0]) - len(exp["P"]) >= 2 and all(len(U) == sz + dg + 1 for U, sz, dg in zip(exp["kv"], exp["size"], exp["deg"])):
            # multiplying all weights by one positive constant - however small or large - moves no point
            pd_ = len(exp["deg"])
            try:
                prms = [[U[dg] + fr_ * (U[-dg - 1] - U[dg]) for U, dg in zip(obj._knot_vector, obj._degree)] for fr_ in (0.0, 0.3, 0.7, 1.0)]
                before = [obj.evaluate_single(q[0] if pd_ == 1 else q) for q in prms]
                for c_ in (2.0 ** -30, 2.0 ** 30, 2.0 ** -60, 2.0 ** 60):
                    obj.weights = [w * c_ for w in obj.weights]
                    after = [obj.evaluate_single(q[0] if pd_ == 1 else q) for q in prms]
                    if not close_seq(after, before):
                        ctx.violate(site, tg + ["weights_scaled_by_%g" % c_], small, {"before": before[1], "after": after[1]})
                        break
                    obj.weights = [w / c_ for w in obj.weights]
            except Exception as e:
                ctx.violate(site, tg + ["weights_scaled", "raises"], small, {"exception": repr(e)[:200]})
        # reads inside the history returned the view of the definition at that point?  (checked through the final state of
        # the prefix history, which is itself a state of the model)


def check_pure(ctx, cs):
    from geomdl import compatibility, convert, CPGen
    ctx.full = cs
    c, o = cs["c"], cs["out"]
    if o["op"] == "helpers":
        P, W, Pw, xyzw, Pw1 = pts(o["P"]), [float(fr(w)) for w in o["W"]], pts(o["Pw"]), pts(o["xyzw"]), pts(o["Pw1"])
        small = {"n": c["n"], "dim": c["dim"], "k": c["k"]}
        tg = ["helpers"]
        ctx.count(("helpers", c["n"], c["dim"], c["k"]), sample={"op": "helpers", **small, "Pw": o["Pw"]})
        tests = [("compatibility.combine_ctrlpts_weights", lambda: compatibility.combine_ctrlpts_weights(P, W), Pw),
                 ("compatibility.combine_ctrlpts_weights", lambda: compatibility.combine_ctrlpts_weights(P), Pw1),
                 ("compatibility.separate_ctrlpts_weights", lambda: compatibility.separate_ctrlpts_weights(Pw), [P, W]),
                 ("compatibility.generate_ctrlptsw", lambda: compatibility.generate_ctrlptsw(xyzw), Pw),
                 ("compatibility.generate_ctrlpts_weights", lambda: compatibility.generate_ctrlpts_weights(Pw), xyzw),
                 ("compatibility.generate_ctrlptsw2d", lambda: compatibility.generate_ctrlptsw2d([xyzw, xyzw[::-1]]), [Pw, Pw[::-1]]),
                 ("compatibility.generate_ctrlpts2d_weights", lambda: compatibility.generate_ctrlpts2d_weights([Pw, Pw[::-1]]), [xyzw, xyzw[::-1]])]
        for site, fn, exp in tests:
            ok, r = _try(ctx, site, tg, small, fn)
            if ok and not close_seq(r, exp):
                ctx.violate(site, tg, small, {"expected": exp, "got": r})
        # the file wrappers of the 2-D conversions: (x, y, z, w) rows -> (xw, yw, zw, w) rows -> back, on a grid with
        # a different number of rows and columns (2 rows of n points) and on the square grid of the helper test above
        import os, tempfile
        d = tempfile.mkdtemp(prefix="verif_c09_")
        try:
            def save(grid, fn):
                with open(fn, "w") as f:
                    for row in grid:
                        f.write(";".join(",".join(repr(float(x)) for x in q) for q in row) + "\n")

            def load(fn):
                with open(fn) as f:
                    return [[[float(x) for x in q.split(",")] for q in line.strip().split(";")] for line in f if line.strip()]
            tiny_ = 2.0 ** -20
            for label, gin, gw in (("2xn", [xyzw, xyzw[::-1]], [Pw, Pw[::-1]]), ("nxn", [xyzw[i:] + xyzw[:i] for i in range(len(xyzw))], [Pw[i:] + Pw[:i] for i in range(len(Pw))]),
                                   ("2xn_small_unit", [[[c * tiny_ for c in q[:-1]] + [q[-1]] for q in row] for row in (xyzw, xyzw[::-1])],
                                    [[[c * tiny_ for c in q[:-1]] + [q[-1]] for q in row] for row in (Pw, Pw[::-1])])):
                t2 = tg + ["file", "grid=" + label, "square" if len(gin) == len(gin[0]) else "nonsquare"]
                fi, fo, fb = (os.path.join(d, x + label) for x in ("in", "out", "back"))
                try:
                    save(gin, fi)
                    compatibility.generate_ctrlptsw2d_file(fi, fo)
                    got = load(fo)
                    if not close_seq(got, gw) or (label.endswith("small_unit") and not close_seq([[[c / tiny_ for c in q[:-1]] for q in row] for row in got], [[[c / tiny_ for c in q[:-1]] for q in row] for row in gw])):
                        ctx.violate("compatibility.generate_ctrlptsw2d_file", t2, small, {"rows": len(got), "expected_rows": len(gw), "row0": got[0] if got else got})
                        continue
                    compatibility.generate_ctrlpts2d_weights_file(fo, fb)
                    back = load(fb)
                    if not close_seq(back, gin) or (label.endswith("small_unit") and not close_seq([[[c / tiny_ for c in q[:-1]] for q in row] for row in back], [[[c / tiny_ for c in q[:-1]] for q in row] for row in gin])):
                        ctx.violate("compatibility.generate_ctrlpts2d_weights_file", t2, small, {"rows": len(back), "row0": back[0] if back else back})
                except Exception as e:
                    ctx.violate("compatibility.generate_ctrlptsw2d_file", t2 + ["raises"], small, {"exception": repr(e)[:200]})
        finally:
            import shutil
            shutil.rmtree(d, ignore_errors=True)
    elif o["op"] == "convert":
        sh = c["sh"]
        kind = KIND[len(sh["deg"])]
        tg = [kind, "convert"]
        small = {"deg": sh["deg"], "kv": sh["kv"]}
        ctx.count(("convert", shape_key(sh)), sample={"op": "convert", **small})
        ok, obj = _try(ctx, "build", tg, small, lambda: build(sh))
        if not ok:
            return
        ok, nb = _try(ctx, "convert.bspline_to_nurbs", tg, small, lambda: convert.bspline_to_nurbs(obj))
        if ok:
            bad = same_def(project(nb), o["nurbs"])
            if bad:
                ctx.violate("convert.bspline_to_nurbs", tg, small, {"field": bad})
            else:
                ok, back = _try(ctx, "convert.nurbs_to_bspline", tg, small, lambda: convert.nurbs_to_bspline(nb))
                if ok:
                    bad = same_def(project(back), sh)
                    if bad:
                        ctx.violate("convert.nurbs_to_bspline", tg, small, {"field": bad})
                    pd = len(sh["deg"])
                    for frac in (0.0, 0.35, 1.0):
                        prm = [frac] * pd
                        a, b, d = (x.evaluate_single(prm[0] if pd == 1 else prm) for x in (obj, nb, back))
                        if not (close_seq(b, a) and close_seq(d, a)):
                            ctx.violate("convert.*", tg + ["evaluation"], small, {"param": prm, "bspline": a, "nurbs": b, "back": d})
        # source and converted object are independent: a knot inserted into one leaves the other's definition alone
        try:
            from geomdl import operations as _ops
            import copy as _copy
            from ..adapter import project as _project
            src = build(sh)
            conv = convert.bspline_to_nurbs(src)
            b_src, b_conv = _copy.deepcopy(_project(src)), _copy.deepcopy(_project(conv))
            pd_ = len(sh["deg"])
            _ops.insert_knot(conv, [0.3] + [None] * (pd_ - 1), [1] + [0] * (pd_ - 1))
            if _project(src) != b_src:
                ctx.violate("convert.bspline_to_nurbs", tg + ["shares_state_with_source"], small, {"edited": "converted", "source_kv": [list(U) for U in src._knot_vector]})
            src2 = build(sh)
            conv2 = convert.bspline_to_nurbs(src2)
            _ops.insert_knot(src2, [0.3] + [None] * (pd_ - 1), [1] + [0] * (pd_ - 1))
            if _project(conv2) != b_conv:
                ctx.violate("convert.bspline_to_nurbs", tg + ["shares_state_with_source"], small, {"edited": "source"})
        except Exception as e:
            ctx.violate("convert.bspline_to_nurbs", tg + ["shares_state_with_source", "raises"], small, {"exception": repr(e)[:200]})
        # a rational shape whose weights are not all one (some are, some are not) cannot be turned into a non-rational one: whatever
        # the converter hands back evaluates like the input
        for label, wfun in (("mixed_weights", lambda i: 1.0 if i % 2 == 0 else 2.0), ("first_weight_only", lambda i: 3.0 if i == 0 else 1.0), ("no_unit_weight", lambda i: 2.0 + i % 2)):
            t2 = tg + [label]
            try:
                nb2 = convert.bspline_to_nurbs(build(sh))
                nb2.weights = [wfun(i) for i in range(len(nb2.weights))]
                pd = len(sh["deg"])
                params = [[frac] * pd for frac in (0.0, 0.35, 0.8, 1.0)]
                before = [nb2.evaluate_single(prm[0] if pd == 1 else prm) for prm in params]      # (rational evaluation is bound to the spec by C01)
                out = convert.nurbs_to_bspline(nb2)
                for prm, a in zip(params, before):
                    b = out.evaluate_single(prm[0] if pd == 1 else prm)
                    if not close_seq(b, a):
                        ctx.violate("convert.nurbs_to_bspline", t2, small, {"param": prm, "input_evaluates_to": a, "result_evaluates_to": b, "result_rational": bool(out.rational)})
                        break
            except Exception as e:
                ctx.violate("convert.nurbs_to_bspline", t2 + ["raises"], small, {"exception": repr(e)[:200]})
    elif o["op"] == "grid":
        nu, nv = c["nu"], c["nv"]
        W = [float(fr(w)) for w in o["W"]]
        exp = [[[float(x) for x in frv(p)] for p in row] for row in o["grid"]]
        small = {"nu": nu, "nv": nv, "k": c["k"]}
        tg = ["grid", "square" if nu == nv else "nonsquare"]
        ctx.count(("grid", nu, nv, c["k"]), sample={"op": "grid", **small, "W": o["W"]})

        def mk(read_first):
            g = CPGen.GridWeighted(float(fr(o["sx"])), float(fr(o["sy"])))
            g.generate(nu, nv)
            if read_first:
                _ = g.grid          # read (unit weights) before the weights are set
            g.weight = list(W)
            return g.grid
        for rf in (False, True):
            t2 = tg + (["read_before_weight"] if rf else [])
            ok, r = _try(ctx, "CPGen.GridWeighted.grid", t2, small, lambda: mk(rf))
            if ok and not close_seq(r, exp):
                ctx.violate("CPGen.GridWeighted.grid", t2, small, {"expected_row0": exp[0], "got_row0": r[0] if r else r})
    else:
        raise core.MachineryError("unknown op " + o["op"])


THEOREMS = ["T_Consistent: ctrlpts[i] * weights[i] = ctrlptsw[i] in every reachable state", "P_Steps: scaling all weights moves no point (SamePts); "
            "each setter keeps the other view", "T_Inverse (helper pairs)", "T_Convert (B-spline -> NURBS evaluates identically)"]


def run(ctx):
    res = core.run_model(ctx, "MC_C09", 3400, thorough_seeds=(2, 3))
    core.tlc_must_pass(res, "MC_C09")
    ctx.add_tlc(res, "all histories of setters / weight scaling / reads up to the depth bound on rational curves, surfaces, volumes")
    resb = core.run_model(ctx, "MC_C09b", 3400, thorough_seeds=(2, 3, 5))
    core.tlc_must_pass(resb, "MC_C09b")
    ctx.add_tlc(resb, "pure conversions: helpers, type conversion, weighted grid")
    ctx.theorems = THEOREMS
    kinds = {}
    for tag, cs in res.cases:
        k = KIND[len(cs["sh0"]["deg"])]
        kinds[k] = kinds.get(k, 0) + 1
        check_history(ctx, cs)
    ops = {}
    for tag, cs in resb.cases:
        ops[cs["out"]["op"]] = ops.get(cs["out"]["op"], 0) + 1
        check_pure(ctx, cs)
    if len(kinds) < 3 or len(ops) < 3:
        raise core.MachineryError("vacuous model: %s %s" % (kinds, ops))
    ctx.traces = len(res.cases) + len(resb.cases)
    ctx.extra.update({"histories_by_kind": kinds, "pure_cases": ops})
    from .. import tracedrv
    tracedrv.trace_check(ctx, 150 if ctx.tier == "quick" else 1200, 6 if ctx.tier == "quick" else 8)
    ctx.rule = "every history (state of MC_C09) is replayed twice with different final read orders; every pure case once"
    ctx.assumptions = ["1e-9 relative tolerance", "weights from {1/2,1,2,3}, scale factors 1/2 and 3"]


def replay(ctx, v):
    if "trace" in v["full"]:
        from .. import tracedrv
        return tracedrv.replay_trace(ctx, v["full"])
    (check_history if "hist" in v["full"] else check_pure)(ctx, v["full"])
