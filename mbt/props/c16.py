"""C16 - linear-algebra routines satisfy their defining equations on every call, independently of earlier calls."""
import math
from fractions import Fraction
from .. import core
from ..core import fr, frv, fl, close, close_seq
from .c01 import _try

TOL = 1e-7


def fmat(M):
    return [[float(x) for x in row] for row in M]


def rmat(M):
    return [[Fraction(x[0], x[1]) for x in row] for row in M]


def check_matrix_calls(ctx, A, facts, tg, small, B=None, x=None, fresh=True):
    """all routines on one matrix; expected values from the spec"""
    from geomdl import linalg
    n = len(A)
    Af = fmat(A)
    det = facts["det"]
    inv = rmat(facts["inv"])
    # determinant
    try:
        d = linalg.matrix_determinant(fmat(A))
        if not close(d, det, TOL):
            ctx.violate("linalg.matrix_determinant", tg, small, {"expected": det, "got": d})
    except ZeroDivisionError:
        pass        # "whenever a result is returned"
    except Exception as e:
        ctx.violate("linalg.matrix_determinant", tg + ["raises"], small, {"exception": repr(e)[:200]})
    # inverse
    try:
        r = linalg.matrix_inverse(fmat(A))
        if not close_seq(r, inv, TOL):
            ctx.violate("linalg.matrix_inverse", tg, small, {"expected": fl(inv), "got": r})
    except ZeroDivisionError:
        pass
    except Exception as e:
        ctx.violate("linalg.matrix_inverse", tg + ["raises"], small, {"exception": repr(e)[:200]})
    # pivot: P is a permutation matrix and mp = P A
    try:
        mp, P = linalg.matrix_pivot(fmat(A))
        okp = (all(all(v in (0.0, 1.0) for v in row) and sum(row) == 1.0 for row in P) and all(sum(P[i][j] for i in range(n)) == 1.0 for j in range(n)))
        PA = [[sum(P[i][k] * Af[k][j] for k in range(n)) for j in range(n)] for i in range(n)]
        if not okp or not close_seq(mp, PA, 1e-12):
            ctx.violate("linalg.matrix_pivot", tg, small, {"P": P, "mp": mp})
    except Exception as e:
        ctx.violate("linalg.matrix_pivot", tg + ["raises"], small, {"exception": repr(e)[:200]})
    if B is not None:
        Bf = fmat(B)
        X = rmat(x)
        try:
            r = linalg.lu_factor(fmat(A), fmat(B))
            if not close_seq(r, X, TOL):
                ctx.violate("linalg.lu_factor", tg, small, {"expected": fl(X), "got": r})
            # the result of the PREVIOUS call (another system of the same or another size) is still what it was when returned
            prev = HELD.get("lu_factor")
            if prev is not None and not close_seq(prev[0], prev[1], TOL):
                ctx.violate("linalg.lu_factor", tg + ["earlier_result_overwritten"], small, {"earlier_expected": fl(prev[1])[:2], "earlier_now": prev[0][:2]})
            HELD["lu_factor"] = (r, X)
            ri = linalg.matrix_inverse(fmat(A))
            prev = HELD.get("inverse")
            if prev is not None and not close_seq(prev[0], prev[1], TOL):
                ctx.violate("linalg.matrix_inverse", tg + ["earlier_result_overwritten"], small, {})
            HELD["inverse"] = (ri, [list(q) for q in ri])
        except ZeroDivisionError:
            pass
        except Exception as e:
            ctx.violate("linalg.lu_factor", tg + ["raises"], small, {"exception": repr(e)[:200]})
        # plain LU: must return a result when all leading principal minors are non-zero (diagonally dominant, collocation, ...)
        try:
            r = linalg.lu_solve(fmat(A), fmat(B))
            if not close_seq(r, X, TOL):
                if facts["lmn"]:
                    ctx.violate("linalg.lu_solve", tg, small, {"expected": fl(X), "got": r})
                elif all(all(v == v and abs(v) != float("inf") for v in row) for row in r):
                    # a finite result was returned for a matrix without plain LU factorisation: it must still solve the system
                    ctx.violate("linalg.lu_solve", tg + ["zero_leading_minor"], small, {"expected": fl(X), "got": r})
        except ZeroDivisionError:
            if facts["lmn"]:
                ctx.violate("linalg.lu_solve", tg + ["raises"], small, {"exception": "ZeroDivisionError although all leading principal minors are non-zero"})
        except Exception as e:
            ctx.violate("linalg.lu_solve", tg + ["raises"], small, {"exception": repr(e)[:200]})


HELD = {}


def check_case(ctx, cs):
    from geomdl import linalg
    ctx.full = cs
    c, o = cs["c"], cs["out"]
    if o["op"] == "matrix":
        A = c["A"]
        n = len(A)
        tg = ["n=%d" % n] + (["needs_swap"] if o["swap"] else []) + (["diag_dominant"] if o["dd"] else []) + ([] if o["lmn"] else ["zero_leading_minor"]) + (["prepivot_zero_minor"] if o["ppzm"] else [])
        small = {"A": A, "B": o["B"]}
        ctx.count(("matrix", str(A), str(o["B"])), sample={"op": "matrix", **small, "det": o["det"]})
        check_matrix_calls(ctx, A, o, tg, small, o["B"], o["x"])
    elif o["op"] == "sequence":
        calls = o["calls"]
        tg = ["sequence", "len=%d" % len(calls)]
        small = {"calls": [[cl[0], cl[1]] for cl in calls]}
        ctx.count(("sequence", str(calls)), sample={"op": "sequence", **small})
        for i, (cl, f) in enumerate(zip(calls, o["facts"])):
            name, A = cl
            Af = fmat(A)
            n = len(A)
            t2 = tg + ["call=%d:%s" % (i, name), "after=" + ",".join(x[0] for x in calls[:i])]
            try:
                if name == "identity":
                    r = linalg.matrix_identity(n)
                    if not close_seq(r, [[1.0 if a == b else 0.0 for b in range(n)] for a in range(n)], 0):
                        ctx.violate("linalg.matrix_identity", t2, small, {"got": r})
                elif name == "pivot":
                    mp, P = linalg.matrix_pivot(Af)
                    PA = [[sum(P[a][k] * Af[k][b] for k in range(n)) for b in range(n)] for a in range(n)]
                    okp = all(sorted(row) == [0.0] * (n - 1) + [1.0] for row in P) and all(sum(P[a][b] for a in range(n)) == 1.0 for b in range(n))
                    if not okp or not close_seq(mp, PA, 1e-12):
                        ctx.violate("linalg.matrix_pivot", t2, small, {"P": P, "mp": mp})
                elif name == "inverse":
                    r = linalg.matrix_inverse(Af)
                    if not close_seq(r, rmat(f["inv"]), TOL):
                        ctx.violate("linalg.matrix_inverse", t2, small, {"expected": fl(rmat(f["inv"])), "got": r})
                elif name == "determinant":
                    r = linalg.matrix_determinant(Af)
                    if not close(r, f["det"], TOL):
                        ctx.violate("linalg.matrix_determinant", t2, small, {"expected": f["det"], "got": r})
                elif name == "lu_factor":
                    r = linalg.lu_factor(Af, [[1.0, 1.0], [2.0, 1.0]])
                    if not close_seq(r, rmat(f["x"]), TOL):
                        ctx.violate("linalg.lu_factor", t2, small, {"expected": fl(rmat(f["x"])), "got": r})
            except ZeroDivisionError:
                pass
            except Exception as e:
                ctx.violate("linalg." + name, t2 + ["raises"], small, {"exception": repr(e)[:200]})
    elif o["op"] == "helpers":
        ctx.count(("helpers",), sample={"op": "helpers"})
        tg = ["helpers"]
        for n, row in enumerate(o["binom"], start=1):
            for k, e in enumerate(row):
                ok, r = _try(ctx, "linalg.binomial_coefficient", tg, {"n": n, "k": k}, lambda: linalg.binomial_coefficient(n, k))
                if ok and not close(r, e):
                    ctx.violate("linalg.binomial_coefficient", tg, {"n": n, "k": k}, {"expected": e, "got": r})
        for num, e in enumerate(o["linspace"], start=1):
            ok, r = _try(ctx, "linalg.linspace", tg, {"num": num}, lambda: linalg.linspace(-0.5, 1.25, num))
            if ok and not close_seq(r, frv(e)):
                ctx.violate("linalg.linspace", tg, {"num": num}, {"expected": fl(frv(e)), "got": r})
        tests = [("linalg.matrix_multiply", lambda: linalg.matrix_multiply([[1.0, 2.0, 3.0], [4.0, 5.0, 6.0]], [[1.0, 0.0], [2.0, -1.0], [0.0, 3.0]]), [[float(x) for x in r] for r in o["matmul"]]),
                 ("linalg.matrix_transpose", lambda: [list(r) for r in linalg.matrix_transpose([[1.0, 2.0, 3.0], [4.0, 5.0, 6.0]])], [[1.0, 4.0], [2.0, 5.0], [3.0, 6.0]]),
                 ("linalg.vector_cross", lambda: list(linalg.vector_cross([1.0, 2.0, 3.0], [-2.0, 0.0, 5.0])), fl(frv(o["cross"]))),
                 ("linalg.vector_dot", lambda: linalg.vector_dot([1.0, 2.0, 3.0], [-2.0, 0.0, 5.0]), float(fr(o["dot"]))),
                 ("linalg.vector_magnitude", lambda: linalg.vector_magnitude([3.0, 4.0, 12.0]), math.sqrt(float(fr(o["norm2"])))),
                 ("linalg.point_distance", lambda: linalg.point_distance([1.0, 1.0, 1.0], [4.0, 5.0, 13.0]), math.sqrt(float(fr(o["norm2"]))))]
        tests += [("linalg.matrix_transpose", lambda: [list(r) for r in linalg.matrix_transpose(((1.0, 2.0, 3.0), (4.0, 5.0, 6.0)))], [[1.0, 4.0], [2.0, 5.0], [3.0, 6.0]]),
                  ("linalg.matrix_transpose", lambda: [list(r) for r in linalg.matrix_transpose([(1, 2), (3, 4), (5, 6)])], [[1.0, 3.0, 5.0], [2.0, 4.0, 6.0]]),
                  ("linalg.matrix_multiply", lambda: linalg.matrix_multiply(((1, 2, 3), (4, 5, 6)), ((1, 0), (2, -1), (0, 3))), [[float(x) for x in r] for r in o["matmul"]]),
                  ("linalg.vector_cross", lambda: list(linalg.vector_cross((1, 2, 3), (-2, 0, 5))), fl(frv(o["cross"]))),
                  ("linalg.vector_dot", lambda: linalg.vector_dot((1, 2, 3), (-2, 0, 5)), float(fr(o["dot"])))]
        for site, fn, e in tests:
            ok, r = _try(ctx, site, tg, {}, fn)
            if ok and not close_seq(r, e):
                ctx.violate(site, tg, {}, {"expected": e, "got": r})
        for lc in o["linspace2"]:
            a_, b_, num = float(fr(lc["a"])), float(fr(lc["b"])), lc["num"]
            small = {"start": lc["a"], "stop": lc["b"], "num": num}
            t2 = tg + ["linspace", "decreasing" if a_ > b_ else ("degenerate" if a_ == b_ else "increasing")]
            ctx.count(("linspace2", str(small)), sample={"op": "linspace", **small, "res": lc["res"]})
            ok, r = _try(ctx, "linalg.linspace", t2, small, lambda: linalg.linspace(a_, b_, num))
            if ok and not close_seq(list(r), frv(lc["res"])):
                ctx.violate("linalg.linspace", t2, small, {"expected": fl(frv(lc["res"])), "got": r})
        for mv in o["matvec"]:
            M, v = [[float(x) for x in r] for r in mv["M"]], [float(x) for x in mv["v"]]
            small = {"M": mv["M"], "v": mv["v"]}
            t2 = tg + ["matrix_vector", "%dx%d" % (len(M), len(M[0]))]
            ctx.count(("matvec", str(mv["M"])), sample={"op": "matrix x vector", **small, "res": mv["res"]})
            ok, r = _try(ctx, "linalg.matrix_multiply", t2, small, lambda: linalg.matrix_multiply(M, v))
            if ok and not close_seq(list(r), [float(x) for x in mv["res"]]):
                ctx.violate("linalg.matrix_multiply", t2, small, {"expected": mv["res"], "got": r})
            # the same product with the vector as a one-column matrix
            ok, r = _try(ctx, "linalg.matrix_multiply", t2 + ["column"], small, lambda: linalg.matrix_multiply(M, [[x] for x in v]))
            if ok and not close_seq([list(x) for x in r], [[float(x)] for x in mv["res"]]):
                ctx.violate("linalg.matrix_multiply", t2 + ["column"], small, {"expected": mv["res"], "got": r})
        for pr in o["pairs"]:
            a, b = [float(x) for x in pr["a"]], [float(x) for x in pr["b"]]
            small = {"a": pr["a"], "b": pr["b"]}
            t2 = tg + ["dims=%dx%d" % (len(a), len(b))]
            ctx.count(("pair", str(pr["a"]), str(pr["b"])), sample={"op": "vector pair", **small, "cross": pr["cross"]})
            ok, r = _try(ctx, "linalg.vector_cross", t2, small, lambda: list(linalg.vector_cross(list(a), list(b))))
            if ok and not close_seq(r, frv(pr["cross"])):
                ctx.violate("linalg.vector_cross", t2, small, {"expected": fl(frv(pr["cross"])), "got": r})
            if len(a) == len(b):
                ok, r = _try(ctx, "linalg.vector_dot", t2, small, lambda: linalg.vector_dot(list(a), list(b)))
                if ok and not close(r, fr(pr["dot"])):
                    ctx.violate("linalg.vector_dot", t2, small, {"expected": float(fr(pr["dot"])), "got": r})
            ok, r = _try(ctx, "linalg.vector_magnitude", t2, small, lambda: linalg.vector_magnitude(list(a)))
            if ok and not close(r, math.sqrt(float(fr(pr["norm2"])))):
                ctx.violate("linalg.vector_magnitude", t2, small, {"expected": math.sqrt(float(fr(pr["norm2"]))), "got": r})
            # the norm is homogeneous: |s v| = s |v| for a very small and a very large power of two s (also through point_distance)
            for s_ in (2.0 ** -40, 2.0 ** 40):
                ok, r = _try(ctx, "linalg.vector_magnitude", t2 + ["scaled"], small, lambda: linalg.vector_magnitude([x * s_ for x in a]))
                if ok and not close(r / s_, math.sqrt(float(fr(pr["norm2"])))):
                    ctx.violate("linalg.vector_magnitude", t2 + ["scaled"], small, {"scale": s_, "expected": s_ * math.sqrt(float(fr(pr["norm2"]))), "got": r})
                ok, r = _try(ctx, "linalg.point_distance", t2 + ["scaled"], small, lambda: linalg.point_distance([x * s_ for x in a], [0.0] * len(a)))
                if ok and not close(r / s_, math.sqrt(float(fr(pr["norm2"])))):
                    ctx.violate("linalg.point_distance", t2 + ["scaled"], small, {"scale": s_, "got": r})
                if len(a) == len(b):
                    ok, r = _try(ctx, "linalg.vector_dot", t2 + ["scaled"], small, lambda: linalg.vector_dot([x * s_ for x in a], list(b)))
                    if ok and not close(r / s_, fr(pr["dot"])):
                        ctx.violate("linalg.vector_dot", t2 + ["scaled"], small, {"scale": s_, "got": r})
    else:
        raise core.MachineryError("unknown op")


THEOREMS = ["T_Defining: A x = b and A A^-1 = I for the exact answers (Laplace determinant, adjugate inverse)",
            "T_DomImpliesLU: strict diagonal dominance implies non-zero leading principal minors (plain LU exists)"]


def run(ctx):
    res = core.run_tlc("MC_C16", "MC_C16_%s.cfg" % ctx.tier, timeout=1800)
    core.tlc_must_pass(res, "MC_C16")
    ctx.add_tlc(res, "all non-singular 2x2 over -2..2, a 3x3 family, hand-picked 4x4/5x5; all call sequences up to the bound")
    ctx.theorems = THEOREMS
    ops = {}
    # call sequences first, in one interpreter, before anything else has touched the module's caches
    for tag, cs in res.cases:
        if cs["out"]["op"] == "sequence":
            ops["sequence"] = ops.get("sequence", 0) + 1
            check_case(ctx, cs)
    for tag, cs in res.cases:
        if cs["out"]["op"] != "sequence":
            ops[cs["out"]["op"]] = ops.get(cs["out"]["op"], 0) + 1
            check_case(ctx, cs)
    if len(ops) < 3:
        raise core.MachineryError("vacuous model: %s" % ops)
    ctx.traces = len(res.cases)
    ctx.extra["cases"] = ops
    ctx.rule = "one case per (matrix, right-hand side), per call sequence, plus the helper table"
    ctx.assumptions = ["1e-7 relative tolerance after LU solves", "a ZeroDivisionError is not a returned result"]


def replay(ctx, v):
    check_case(ctx, v["full"])
