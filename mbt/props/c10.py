"""C10 - translation, rotation and scaling act on the shape as on its points (single shapes and containers, in place or not)."""
import copy, math
from .. import core
from ..core import fr, frv
from ..adapter import build, project, same_def, shape_key
from .c01 import KIND, _try


def check_case(ctx, cs):
    from geomdl import operations, multi
    ctx.full = cs
    c, o = cs["c"], cs["out"]
    op, inplace = o["op"], o["inplace"]
    is_cont = len(c) > 1
    kind = "container" if is_cont else KIND[len(c[0]["deg"])]
    tg = [kind, op, "inplace" if inplace else "copy"] + (["rational"] if any(s["rat"] for s in c) else ["nonrational"])
    small = {"kind": kind, "op": op, "inplace": inplace, "n": len(c), "deg": [s["deg"] for s in c], "rat": [s["rat"] for s in c]}
    if op == "translate":
        small["vec"] = o["vec"]
    elif op == "scale":
        small["f"] = o["f"]
    else:
        small.update(axis=o["axis"], cos=o["cos"], sin=o["sin"])
        tg.append("axis=%d" % o["axis"])
    ctx.count((op, inplace, core.json.dumps(small, sort_keys=True), tuple(shape_key(s) for s in c)), sample=small)
    try:
        elems = [build(s) for s in c]
        if is_cont:
            target = multi.CurveContainer()
            target.add(elems)
        else:
            target = elems[0]
    except Exception as e:
        ctx.violate("build", tg + ["raises"], small, {"exception": repr(e)[:200]})
        return
    # the shapes have been evaluated before the map is applied (their sampled points are cached)
    try:
        for e in elems:
            e.sample_size = 3
            _ = e.evalpts
            if e.pdimension == 1:
                # (only a part of the curve is sampled last: the map still refers to the whole curve and its start point)
                lo_, hi_ = e.domain
                e.evaluate(start=(lo_ + hi_) / 2.0, stop=hi_)
    except Exception as e:
        ctx.violate("evalpts", tg + ["raises"], small, {"exception": repr(e)[:200]})
        return
    before = [copy.deepcopy(project(e)) for e in elems]
    site = "operations." + op
    # (the weights of rational elements re-assigned from a scratch list that is overwritten afterwards)
    if inplace:
        from ..adapter import reassign_weights_from_scratch_list
        for e_ in elems:
            try:
                reassign_weights_from_scratch_list(e_)
            except Exception as ex:
                ctx.violate("NURBS.weights.setter", tg + ["raises"], small, {"exception": repr(ex)[:200]})
                return
    # (a loop over the container / shape left early, as a look-up loop does: iteration state must not leak into the operation)
    try:
        next(iter(target))
    except Exception:
        pass
    kw = {"inplace": True} if inplace else {}          # (not in place is the documented default: the option is left out)
    try:
        if op == "translate":
            ret = operations.translate(target, [float(x) for x in frv(o["vec"])], **kw)
        elif op == "scale":
            ret = operations.scale(target, float(fr(o["f"])), **kw)
        else:
            deg = float(fr(o["deg"])) if o["deg"] != [0, 0] else math.degrees(math.atan2(4.0, 3.0))
            ret = operations.rotate(target, deg, axis=o["axis"], **kw)
    except Exception as e:
        ctx.violate(site, tg + ["raises"], small, {"exception": repr(e)[:300]})
        return
    # identity semantics
    if inplace and ret is not target:
        ctx.violate(site, tg + ["identity"], small, {"expected": "the same object is returned when inplace=True"})
    if not inplace:
        if ret is target:
            ctx.violate(site, tg + ["identity"], small, {"expected": "a new object when inplace=False"})
        for e, b, s in zip(elems, before, c):
            if project(e) != b:
                ctx.violate(site, tg + ["input_modified"], small, {"field": same_def(project(e), s)})
                return
    got = [ret[i] for i in range(len(c))] if is_cont else [ret]
    if len(got) != len(c):
        ctx.violate(site, tg + ["count"], small, {"expected": len(c), "got": len(got)})
        return
    variants = [o["res"]] + ([o["res2"]] if op == "rotate" else [])
    tiny = op == "scale" and abs(float(fr(o["f"]))) < 1e-3
    tol_def = 1e-12 if (op == "translate" and 0 < max(abs(float(fr(x))) for x in o["vec"]) < 1e-6) else 1e-9
    fails = []
    for var in variants:
        bad = None
        for g, e, orig in zip(got, var, c):
            if tiny:
                # compare at the scale of the original: (result / f) against the unscaled shape (weights are not scaled)
                fct = float(fr(o["f"]))
                pg = project(g)
                pg["P"] = [[x / fct for x in q[:-1]] + [q[-1]] if pg["rat"] else [x / fct for x in q] for q in pg["P"]]
                bad = same_def(pg, orig, 1e-9)
            else:
                bad = same_def(project(g), e, tol_def)
            if bad:
                break
        fails.append(bad)
    if all(fails):
        ctx.violate(site, tg, small, {"field": fails[0], "note": "rotation compared against both orientations" if op == "rotate" else ""})
        return
    # a rational curve whose views were read, reversed, then mapped in place: the result is the reversed image
    if not is_cont and len(c[0]["deg"]) == 1 and c[0]["rat"] and inplace and op == "translate":
        try:
            e2 = build(c[0])
            _ = list(e2.ctrlpts), list(e2.weights)
            e2.reverse()
            operations.translate(e2, [float(x) for x in frv(o["vec"])], inplace=True)
            ref = build(o["res"][0])
            ref.reverse()
            from ..core import close_seq as _cs
            if not (_cs([list(q) for q in e2._control_points], [list(q) for q in ref._control_points]) and _cs(list(e2.knotvector), list(ref.knotvector))):
                ctx.violate(site, tg + ["after_reverse"], small, {"got0": list(e2._control_points[0]), "expected0": list(ref._control_points[0])})
        except Exception as ex:
            ctx.violate(site, tg + ["after_reverse", "raises"], small, {"exception": repr(ex)[:200]})
    # the sampled points of the result are the mapped points (no stale samples from before the map)
    from ..core import close_seq
    var = variants[fails.index(None)]
    for g, e in zip(got, var):
        tw = build(e)
        tw.sample_size = 3
        try:
            a = [list(p) for p in g.evalpts]
        except Exception as ex:
            ctx.violate(site, tg + ["raises", "evalpts_after"], small, {"exception": repr(ex)[:200]})
            return
        ref_pts = [list(p) for p in tw.evalpts]
        if tiny:
            fct = float(fr(o["f"]))
            a = [[x / fct for x in q] for q in a]
            ref_pts = [[x / fct for x in q] for q in ref_pts]
        if not close_seq(a, ref_pts, 1e-9):
            ctx.violate(site, tg + ["evalpts_after"], small, {"got": a[:2], "expected": [list(p) for p in tw.evalpts][:2]})
            return


THEOREMS = ["T_ActsOnPoints: Point(result, prm) = Map(Point(original, prm)) at every lattice parameter, weights / knots / degrees unchanged"]


def run(ctx):
    res = core.run_model(ctx, "MC_C10", 1800, thorough_seeds=(2, 3, 5, 7))
    core.tlc_must_pass(res, "MC_C10")
    ctx.add_tlc(res, "every shape/container x map x argument x inplace flag")
    ctx.theorems = THEOREMS
    ops = {}
    for tag, cs in res.cases:
        k = cs["out"]["op"] + ("/container" if len(cs["c"]) > 1 else "")
        ops[k] = ops.get(k, 0) + 1
        check_case(ctx, cs)
    if len(ops) < 6:
        raise core.MachineryError("vacuous model: %s" % ops)
    ctx.traces = len(res.cases)
    ctx.extra["cases_by_operation"] = ops
    from .. import tracedrv
    tracedrv.trace_check(ctx, 150 if ctx.tier == "quick" else 1200, 6 if ctx.tier == "quick" else 8)
    ctx.rule = "one case per (shape or container, map, argument, inplace)"
    ctx.assumptions = ["rational rotation angles only (90, 180, 270 degrees and the 3-4-5 angle)", "either orientation of a rotation is accepted",
                       "1e-9 relative tolerance"]


def replay(ctx, v):
    if "trace" in v["full"]:
        from .. import tracedrv
        return tracedrv.replay_trace(ctx, v["full"])
    check_case(ctx, v["full"])
