"""C06 - removing a removable knot is exact and inverts insertion.  TLC enumerates (insert | refine) ; remove histories in which
the removal is enabled only for exactly removable knots (definition: the reduced shape re-inserts to the current one); the
book-faithful A5.8 transcription is shown to pass its own test and to invert A5.1; every history is replayed into real objects."""
from .. import core
from ..core import fl, frv, close_seq
from ..adapter import build, project, same_def
from ..histories import replay_history
from .c01 import tags_of, KIND
from . import c04


def check_case(ctx, cs):
    ctx.full = cs
    sh0, hist, exp = cs["sh0"], cs["hist"], cs["obj"]
    st = hist[-1]
    if st["a"] not in ("remove", "remove_multi"):
        return False
    if st["a"] == "remove":
        tg = tags_of(sh0) + ["after_" + hist[0]["a"], "dir=" + "uvw"[st["d"] - 1], "r=%d" % st["r"], "deg=%d" % sh0["deg"][st["d"] - 1]]
    else:
        tg = tags_of(sh0) + ["after_" + hist[0]["a"], "multi_direction", "dirs=" + "".join("uvw"[d] for d, p in enumerate(st["prm"]) if p != [])]
    small = {"deg": sh0["deg"], "kv": sh0["kv"], "rat": sh0["rat"], "hist": hist}
    ctx.count(c04.hist_key(cs), sample={"sh0": {k: sh0[k] for k in ("deg", "kv", "size", "rat")}, "hist": hist, "expected_kv": exp["kv"]})
    tg0 = tg
    unit_range = all(U[0] == [0, 1] and U[-1] == [1, 1] for U in sh0["kv"])
    for via in ("operations", "method", "tiny", "huge", "alt", "alt_method") + (("tiny_knot_range",) if unit_range else ()):
        site = ("%s." % KIND[len(sh0["deg"])].capitalize() if via in ("method", "alt_method") else "operations.") + "remove_knot"
        conj = {"tiny": 2.0 ** -40, "huge": 2.0 ** 20}.get(via)      # (the same history in a very small / very large unit)
        tg = tg0 + (["coordinates=" + via] if conj is not None else []) + (["tuples_and_ints"] if via.startswith("alt") else []) + (["knot_range=2^-16"] if via == "tiny_knot_range" else [])
        try:
            obj, infos = replay_history(sh0, hist, "method" if via in ("method", "alt_method") else "operations", conj=conj, alt_repr=via.startswith("alt"),
                                        kv_scale=(2 ** 16 if via == "tiny_knot_range" else None))
            if via == "tiny_knot_range":
                # (back onto [0, 1] for the comparison with the specification's result)
                for U_ in obj._knot_vector:
                    for i_ in range(len(U_)):
                        U_[i_] = U_[i_] * 2.0 ** 16
        except Exception as e:
            ctx.violate(site, tg + ["raises"], small, {"exception": repr(e)[:300]})
            continue
        bad = same_def(project(obj), exp, 1e-8)
        if bad:
            ctx.violate(site, tg, small, {"field": bad, "expected_size": exp["size"], "got_size": list(obj._control_points_size)})
            continue
        if via == "operations":
            # the last removal applied to a deep COPY of the object: the source keeps its knot vectors and control points
            try:
                import copy as _copy
                from ..histories import apply_step as _apply
                src, _i = replay_history(sh0, hist[:-1], "operations")
                before = _copy.deepcopy(project(src))
                cp = _copy.deepcopy(src)
                _apply(cp, hist[-1], "operations")
                if project(src) != before:
                    ctx.violate(site, tg + ["source_changed_by_removal_on_copy"], small, {"source_kv": [list(U) for U in src._knot_vector]})
                elif same_def(project(cp), exp, 1e-8):
                    ctx.violate(site, tg + ["removal_on_copy"], small, {"field": same_def(project(cp), exp, 1e-8)})
            except Exception as e:
                ctx.violate(site, tg + ["removal_on_copy", "raises"], small, {"exception": repr(e)[:200]})
        try:
            ref = build(sh0)
            pd = len(sh0["deg"])
            for frac in (0.0, 0.3, 0.55, 1.0):
                prm = [frac] * pd
                a = obj.evaluate_single(prm[0] if pd == 1 else prm)
                b = ref.evaluate_single(prm[0] if pd == 1 else prm)
                if not close_seq(a, b, 1e-8):
                    ctx.violate(site, tg + ["evaluation"], small, {"param": prm, "before": b, "after": a})
                    break
        except Exception as e:
            ctx.violate(site, tg + ["raises", "evaluation"], small, {"exception": repr(e)[:300]})
    return True


THEOREMS = ["P_RemoveExact: removal leaves SameH and shrinks knot vector / net by exactly r in that direction only",
            "P_BookTest: A5.8's own removability test (tolerance 0) accepts every row of an exactly removable knot",
            "InvertsInsert: insert r ; remove r restores the original definition", "InsertedIsRemovable: r' <= r copies of an inserted knot are removable"]


def run(ctx):
    res = core.run_model(ctx, "MC_C06", 3400, thorough_seeds=(2, 3))
    core.tlc_must_pass(res, "MC_C06")
    ctx.add_tlc(res, "exhaustive over (insert | refine) ; remove histories on curves, surfaces and volumes")
    ctx.theorems = THEOREMS
    kinds = {}
    n = 0
    for tag, cs in res.cases:
        if check_case(ctx, cs):
            n += 1
            k = KIND[len(cs["sh0"]["deg"])] + "/after_" + cs["hist"][0]["a"]
            kinds[k] = kinds.get(k, 0) + 1
    if len(kinds) < 6:
        raise core.MachineryError("vacuous model: %s" % kinds)
    ctx.traces = n
    ctx.extra["remove_histories"] = kinds
    from .. import tracedrv, repotrace
    repotrace.repo_trace_check(ctx)
    tracedrv.trace_check(ctx, 150 if ctx.tier == "quick" else 1200, 6 if ctx.tier == "quick" else 8)
    ctx.rule = "every history ending in an enabled remove is one case (replayed via operations.remove_knot and via the object method)"
    ctx.assumptions = ["1e-8 relative tolerance", "removal of knots that are not exactly removable is unspecified (not an action of the model)"]


def replay(ctx, v):
    if "trace" in v["full"]:
        from .. import tracedrv
        return tracedrv.replay_trace(ctx, v["full"])
    check_case(ctx, v["full"])
