"""C15 - tessellation is a valid triangulation lying on the surface.
spec -> code: TLC enumerates (sample sizes, vertex spacing) and proves its own mesh valid; the replay checks vertex numbering,
parameters and positions.  code -> spec: every mesh produced by geomdl is sent back to TLC, which evaluates the specification's
ValidTriangulation predicate on it (orientation, exact tiling, edge incidence, Euler characteristic, consecutive numbering)."""
import json, os, tempfile
from .. import core
from ..core import fr, frv, close_seq
from ..adapter import build
from .c01 import _try

SURFS = [
    {"deg": [2, 1], "kv": [[[0, 1]] * 3 + [[1, 2]] + [[1, 1]] * 3, [[0, 1], [0, 1], [1, 1], [1, 1]]], "size": [4, 2], "rat": False,
     "P": [[[i, 1], [j, 1], [(i * j + i) % 3, 1]] for i in range(4) for j in range(2)]},
    {"deg": [1, 2], "kv": [[[0, 1], [0, 1], [1, 3], [1, 1], [1, 1]], [[0, 1]] * 3 + [[1, 1]] * 3], "size": [3, 3], "rat": True,
     "P": [[[i * (1 + (i + j) % 2), 1], [j * (1 + (i + j) % 2), 1], [((i + 2 * j) % 3) * (1 + (i + j) % 2), 1], [1 + (i + j) % 2, 1]] for i in range(3) for j in range(3)]},
]


# a surface whose knot vectors are kept in their original (non-[0,1]) range
RAW = {"deg": [2, 1], "kv": [[[0, 1]] * 3 + [[2, 1]] + [[3, 1]] * 3, [[1, 1], [1, 1], [2, 1], [2, 1]]], "size": [4, 2], "rat": False,
       "P": [[[i, 1], [j, 1], [(i * j + i) % 3, 1]] for i in range(4) for j in range(2)]}


# a surface with a pole: the whole first row of control points is one point (collapsed triangles are triangles all the same)
POLE = {"deg": [2, 1], "kv": [[[0, 1]] * 3 + [[1, 1]] * 3, [[0, 1], [0, 1], [1, 2], [1, 1], [1, 1]]], "size": [3, 3], "rat": False,
        "P": [[[0, 1], [0, 1], [2, 1]]] * 3 + [[[1, 1], [j, 1], [1, 1]] for j in range(3)] + [[[2, 1], [j * 2, 1], [0, 1]] for j in range(3)]}


def lattice(uv, su, sv):
    a, b = uv[0] * (su - 1), uv[1] * (sv - 1)
    ia, ib = round(a), round(b)
    if abs(a - ia) > 1e-9 or abs(b - ib) > 1e-9 or not (0 <= ia <= su - 1 and 0 <= ib <= sv - 1):
        return None
    return [int(ia), int(ib)]


def check_tri(ctx, cs, meshes):
    from geomdl import tessellate
    ctx.full = cs
    c, o = cs["c"], cs["out"]
    su, sv, s = c["su"], c["sv"], o["s"]
    tg = ["tri", "spacing=%d" % s] + (["spacing>=3"] if s >= 3 else [])
    small = {"sample_size": [su, sv], "vertex_spacing": s}
    for si, sh in enumerate(SURFS + ([RAW] if (su, sv) in ((3, 3), (4, 5)) else []) + ([POLE] if (su, sv) in ((3, 4), (5, 3), (4, 4)) else [])):
        ctx.count(("tri", su, sv, s, si), sample={"op": "tri", **small, "n_tris": len(o["tris"])})
        site = "Surface.tessellate"
        if sh is RAW:
            tg = tg + ["raw_kv"]
        def run():
            obj = build(sh)
            obj.sample_size_u, obj.sample_size_v = su, sv
            obj.tessellate(vertex_spacing=s)
            return obj, list(obj.vertices), list(obj.faces)
        ok, r = _try(ctx, site, tg, small, run)
        if not ok:
            continue
        obj, V, F = r
        if sh is SURFS[0] and s == 1:
            # a deep copy is moved and tessellated: the mesh of the original is still its own
            try:
                import copy as _copy
                from geomdl import operations as _ops
                cp = _copy.deepcopy(obj)
                _ops.translate(cp, [50.0, 50.0, 50.0], inplace=True)
                cp.tessellate(vertex_spacing=s)
                now = [list(v.data) for v in obj.vertices]
                was = [list(v.data) for v in V]
                moved = [list(v.data) for v in cp.vertices]
                if not close_seq(now, was, 1e-12) or len(moved) != len(was) or not close_seq(moved, [[x + 50.0 for x in q] for q in was], 1e-9):
                    ctx.violate("abstract.GeomdlBase.__deepcopy__", tg + ["tessellation_shared_with_copy"], small, {"n_original": len(now), "n_copy": len(moved)})
            except Exception as e:
                ctx.violate("abstract.GeomdlBase.__deepcopy__", tg + ["tessellation_shared_with_copy", "raises"], small, {"exception": repr(e)[:200]})
        if len(V) != len(o["pos"]) or len(F) != len(o["tris"]):
            ctx.violate(site, tg + ["counts"], small, {"vertices": [len(V), len(o["pos"])], "faces": [len(F), len(o["tris"])]})
            continue
        ids = [v.id for v in V]
        if ids != list(range(len(V))):
            ctx.violate(site, tg + ["vertex_ids"], small, {"ids": ids[:10]})
            continue
        pos = []
        bad = False
        ev = obj.evalpts
        for v in V:
            p = lattice(v.uv, su, sv)
            if p is None:
                ctx.violate(site, tg + ["vertex_uv"], small, {"uv": list(v.uv)})
                bad = True
                break
            pos.append(p)
            # (parameters are accumulated in floating point by the mesher: 1.0000000000000002 is the domain end)
            uvc = [min(1.0, max(0.0, t)) for t in v.uv]
            onsurf = obj.evaluate_single(uvc) if sh is not RAW else list(v.data)
            if not (close_seq(list(v.data), onsurf) and close_seq(list(v.data), ev[p[1] + p[0] * sv])):
                ctx.violate(site, tg + ["vertex_position"], small, {"uv": list(v.uv), "data": list(v.data), "surface_at_uv": onsurf})
                bad = True
                break
        if bad:
            continue
        tris = [list(f.vertex_ids) for f in F]
        if any(len(t) != 3 or any((not isinstance(x, int)) or x < 0 or x >= len(V) for x in t) for t in tris):
            ctx.violate(site, tg + ["face_indices"], small, {"faces": tris[:4]})
            continue
        meshes.append({"id": len(meshes) + 1, "pos": pos, "tris": tris, "w": su - 1, "h": sv - 1,
                       "_ctx": (site, tg, small, cs)})


def check_quad(ctx, cs):
    from geomdl import tessellate
    ctx.full = cs
    c, o = cs["c"], cs["out"]
    su, sv = c["su"], c["sv"]
    tg = ["quad"]
    small = {"sample_size": [su, sv]}
    ctx.count(("quad", su, sv), sample={"op": "quad", **small})
    def run():
        obj = build(SURFS[0])
        obj.tessellator = tessellate.QuadTessellate()
        obj.sample_size_u, obj.sample_size_v = su, sv
        obj.tessellate()
        return obj, list(obj.vertices), list(obj.faces)
    ok, r = _try(ctx, "Surface.tessellate[QuadTessellate]", tg, small, run)
    if not ok:
        return
    obj, V, F = r
    if len(V) != su * sv or len(F) != len(o["quads"]):
        ctx.violate("tessellate.QuadTessellate", tg + ["counts"], small, {"vertices": len(V), "faces": len(F)})
        return
    got = sorted(tuple(v.id for v in q.vertices) for q in F)
    exp = sorted(tuple(q) for q in o["quads"])
    rot = lambda q: min(q[k:] + q[:k] for k in range(4))
    if sorted(map(rot, got)) != sorted(map(rot, exp)):
        ctx.violate("tessellate.QuadTessellate", tg + ["quads"], small, {"got": got[:3], "expected": exp[:3]})
    ev = obj.evalpts
    for k, v in enumerate(V):
        if not close_seq(list(v.data), ev[k]):
            ctx.violate("tessellate.QuadTessellate", tg + ["vertex_position"], small, {"k": k})
            break


PREV_TRIM = {}


def check_trim(ctx, cs):
    from geomdl import tessellate, BSpline
    ctx.full = cs
    o = cs["out"]
    n, unit = o["n"], o["unit"]
    poly = o["poly"]
    tg = ["trim", "nverts=%d" % (len(poly) - 1)]
    small = {"poly": poly}
    ctx.count(("trim", str(poly)), sample={"op": "trim", **small})
    def run():
        from geomdl import knotvector
        obj = build(SURFS[0])
        obj.tessellator = tessellate.TrimTessellate()
        t = BSpline.Curve()
        t.degree = 1

        def define(pl):
            t.ctrlpts = [[p[0] / float(unit * n), p[1] / float(unit * n)] for p in pl]
            t.knotvector = knotvector.generate(1, len(pl))
            t.sample_size = len(pl)          # degree 1, uniform knots: the samples are exactly the polygon vertices
        prev = PREV_TRIM.get("poly")
        define(prev if prev and prev != poly else poly)
        obj.trims = [t]
        obj.sample_size_u, obj.sample_size_v = n + 1, n + 1
        obj.tessellate()
        if prev and prev != poly:
            # the SAME trim object is given the loop of this case and the surface is tessellated again: the mesh follows the new loop
            define(poly)
            obj.tessellate(force=True)
        PREV_TRIM["poly"] = poly
        return obj, list(obj.vertices), list(obj.faces)
    ok, r = _try(ctx, "Surface.tessellate[TrimTessellate]", tg, small, run)
    if not ok:
        return
    obj, V, F = r
    cnt = [[0] * n for _ in range(n)]
    byid = {v.id: v for v in V}
    for f in F:
        try:
            uvs = [f.vertices[k].uv for k in range(3)]
        except Exception as e:
            ctx.violate("tessellate.TrimTessellate", tg + ["face"], small, {"exception": repr(e)[:100]})
            return
        cu, cv = sum(p[0] for p in uvs) / 3.0, sum(p[1] for p in uvs) / 3.0
        a, b = min(int(cu * n), n - 1), min(int(cv * n), n - 1)
        cnt[a][b] += 1
    for a in range(n):
        for b in range(n):
            cl = o["cls"][a][b]
            if (cl == "inside" and cnt[a][b] != 0) or (cl == "outside" and cnt[a][b] != 2):
                ctx.violate("tessellate.TrimTessellate", tg + ["cell_" + cl], small, {"cell": [a, b], "class": cl, "triangles": cnt[a][b]})
                return
    # every vertex (grid vertices and the ones created where the trim crosses a cell edge) lies on the surface at its parameters
    for v in V:
        try:
            uv = list(v.uv)
            if not (0.0 <= uv[0] <= 1.0 and 0.0 <= uv[1] <= 1.0):
                continue
            onsurf = obj.evaluate_single(uv)
        except Exception as e:
            ctx.violate("tessellate.TrimTessellate", tg + ["raises", "vertex_position"], small, {"exception": repr(e)[:200]})
            return
        if not close_seq(list(v.data), onsurf, 1e-9):
            ctx.violate("tessellate.TrimTessellate", tg + ["vertex_position"], small, {"uv": uv, "data": list(v.data), "surface_at_uv": onsurf})
            return
    ids = sorted(v.id for v in V)
    used = sorted({i for f in F for i in f.vertex_ids})
    if any(i < 0 or i >= len(V) for i in used):
        ctx.violate("tessellate.TrimTessellate", tg + ["face_indices"], small, {"max": max(used), "vertices": len(V)})


def check_exports(ctx, su, sv, s, scale=1.0):
    """OBJ / OFF / STL (ascii and binary) describe exactly the tessellated mesh, with per-surface vertex offsets"""
    import struct, math
    from geomdl import exchange, multi, operations

    def build(sh):          # (shadows the adapter's build inside this function) optionally a small model, e.g. millimetres in metres
        from ..adapter import build as _b
        o = _b(sh)
        if scale != 1.0:
            operations.scale(o, scale, inplace=True)
        return o
    tg = ["export", "spacing=%d" % s] + (["scale=%g" % scale] if scale != 1.0 else [])

    def unsc(pts_):          # numbers are compared at the scale of the unscaled model (a tiny model keeps all its digits in the files)
        return [[x / scale for x in q] for q in pts_]
    small = {"sample_size": [su, sv], "vertex_spacing": s, "scale": scale}
    for nsurf in ((1, 2, 3) if scale == 1.0 else (1,)):
        t2 = tg + ["container%d" % nsurf if nsurf >= 2 else "single"]
        ctx.count(("export", su, sv, s, nsurf), sample={"op": "export", **small, "surfaces": nsurf})
        try:
            refs = []
            for k in range(nsurf):
                r = build(SURFS[k % 2])
                r.sample_size_u, r.sample_size_v = su, sv
                r.tessellate(vertex_spacing=s)
                refs.append(([list(v.data) for v in r.vertices], [list(f.vertex_ids) for f in r.faces]))
            def target():
                objs = [build(SURFS[k % 2]) for k in range(nsurf)]
                for o in objs:
                    o.sample_size_u, o.sample_size_v = su, sv
                if nsurf == 1:
                    return objs[0]
                c = multi.SurfaceContainer(objs)
                c.sample_size_u, c.sample_size_v = su, sv
                return c
            allv = [v for V, F in refs for v in V]
            allf, off = [], 0
            for V, F in refs:
                allf += [[i + off for i in f] for f in F]
                off += len(V)
            # OBJ
            txt = exchange.export_obj_str(target(), vertex_spacing=s)
            vs = [[float(x) for x in l.split()[1:]] for l in txt.splitlines() if l.startswith("v ")]
            fs = [[int(x) - 1 for x in l.split()[1:]] for l in txt.splitlines() if l.startswith("f ")]
            if not close_seq(unsc(vs), unsc(allv), 1e-12) or fs != allf:
                ctx.violate("exchange.export_obj_str", t2, small, {"n_v": [len(vs), len(allv)], "n_f": [len(fs), len(allf)], "first_bad_face": next((i for i, (a, b) in enumerate(zip(fs, allf)) if a != b), None)})
            # OFF
            lines = exchange.export_off_str(target(), vertex_spacing=s).splitlines()
            nv, nf = int(lines[1].split()[0]), int(lines[1].split()[1])
            vs = [[float(x) for x in l.split()] for l in lines[2:2 + nv]]
            fs = [[int(x) for x in l.split()[1:]] for l in lines[2 + nv:2 + nv + nf]]
            if lines[0] != "OFF" or nv != len(allv) or nf != len(allf) or not close_seq(unsc(vs), unsc(allv), 1e-12) or fs != allf or any(l.split()[0] != "3" for l in lines[2 + nv:2 + nv + nf]):
                ctx.violate("exchange.export_off_str", t2, small, {"counts": [nv, nf], "expected": [len(allv), len(allf)]})
            # STL (ascii): one facet per triangle, vertices = triangle vertices, normal parallel to (v2 - v1) x (v3 - v2)
            def facet_ok(nrm, tri):
                a, b, c = tri
                e1 = [b[i] - a[i] for i in range(3)]
                e2 = [c[i] - b[i] for i in range(3)]
                cr = [e1[1] * e2[2] - e1[2] * e2[1], e1[2] * e2[0] - e1[0] * e2[2], e1[0] * e2[1] - e1[1] * e2[0]]
                ln = math.sqrt(sum(x * x for x in cr))
                ln2 = math.sqrt(sum(x * x for x in nrm))
                if ln < 1e-30:
                    return True
                if ln2 < 1e-30:
                    return False
                # same direction and orientation (any positive multiple of (v2 - v1) x (v3 - v2) is a facet normal)
                return all(abs(cr[i] / ln - nrm[i] / ln2) < 1e-5 for i in range(3))
            txt = exchange.export_stl_str(target(), vertex_spacing=s, binary=False)
            L = [l.split() for l in txt.splitlines()]
            normals = [[float(x) for x in l[2:]] for l in L if l[:2] == ["facet", "normal"]]
            verts = [[float(x) for x in l[1:]] for l in L if l and l[0] == "vertex"]
            tris = [verts[i:i + 3] for i in range(0, len(verts), 3)]
            exp_tris = [[allv[i] for i in f] for f in allf]
            if len(tris) != len(allf) or not close_seq([unsc(t) for t in tris], [unsc(t) for t in exp_tris], 1e-12) or not all(facet_ok(n, t) for n, t in zip(normals, tris)):
                ctx.violate("exchange.export_stl_str", t2 + ["ascii"], small, {"facets": [len(tris), len(allf)]})
            raw = exchange.export_stl_str(target(), vertex_spacing=s, binary=True)
            n = struct.unpack("<i", raw[80:84])[0]
            ok = n == len(allf) and len(raw) == 84 + 50 * n
            if ok:
                for k in range(n):
                    rec = struct.unpack("<12f", raw[84 + 50 * k:84 + 50 * k + 48])
                    tri = [list(rec[3:6]), list(rec[6:9]), list(rec[9:12])]
                    if not all(abs(a - b) <= 1e-5 * max(abs(b), 1e-3 * scale) for ta, tb in zip(tri, exp_tris[k]) for a, b in zip(ta, tb)) or \
                            not facet_ok(list(rec[0:3]), exp_tris[k]):
                        ok = False
                        break
            if not ok:
                ctx.violate("exchange.export_stl_str", t2 + ["binary"], small, {"facets": [n, len(allf)]})
            # the SAME object exported / tessellated repeatedly with different spacings: every output follows the spacing asked for
            s_other = 1 if s != 1 else next((q for q in (2, 3, 4) if (su - 1) % q == 0 and (sv - 1) % q == 0), None)
            if s_other is not None:
                def ref_for(sp):
                    vv, ff, off2 = [], [], 0
                    for k in range(nsurf):
                        r = build(SURFS[k % 2])
                        r.sample_size_u, r.sample_size_v = su, sv
                        r.tessellate(vertex_spacing=sp)
                        vv += [list(v.data) for v in r.vertices]
                        ff += [[i + off2 for i in f.vertex_ids] for f in r.faces]
                        off2 += len(r.vertices)
                    return vv, ff
                same = target()
                if nsurf == 1:
                    same.tessellate()          # tessellated once with the default spacing before the first export
                for sp in (s, s_other, s):
                    txt = exchange.export_obj_str(same, vertex_spacing=sp)
                    vs = [[float(x) for x in l.split()[1:]] for l in txt.splitlines() if l.startswith("v ")]
                    fs = [[int(x) - 1 for x in l.split()[1:]] for l in txt.splitlines() if l.startswith("f ")]
                    rv, rf = ref_for(sp)
                    if not close_seq(vs, rv, 1e-12) or fs != rf:
                        ctx.violate("exchange.export_obj_str", t2 + ["same_object_again", "spacing_now=%d" % sp], small,
                                    {"n_v": [len(vs), len(rv)], "n_f": [len(fs), len(rf)]})
                        break
            # the spacing option left out: every vertex of the sampled grid (spacing 1) is exported
            if s == 1:
                for fname, fn in (("export_obj_str", exchange.export_obj_str), ("export_off_str", exchange.export_off_str)):
                    txt = fn(target())
                    if fname == "export_obj_str":
                        nv_ = sum(1 for l in txt.splitlines() if l.startswith("v "))
                        nf_ = sum(1 for l in txt.splitlines() if l.startswith("f "))
                    else:
                        nv_, nf_ = (int(x) for x in txt.splitlines()[1].split()[:2])
                    if nv_ != len(allv) or nf_ != len(allf):
                        ctx.violate("exchange." + fname, t2 + ["default_spacing"], small, {"counts": [nv_, nf_], "expected": [len(allv), len(allf)]})
                raw = exchange.export_stl_str(target(), binary=True)
                if struct.unpack("<i", raw[80:84])[0] != len(allf):
                    ctx.violate("exchange.export_stl_str", t2 + ["default_spacing"], small, {"facets": struct.unpack("<i", raw[80:84])[0], "expected": len(allf)})
            # container tessellation: vertex / face ids are offset per surface
            if nsurf >= 2:
                c = target()
                # (a tessellator chosen through the container: every surface gets one of its own)
                from geomdl import tessellate as _tsl
                c.tessellator = _tsl.TriangularTessellate()
                c.tessellate(vertex_spacing=s)
                # reference: the elements tessellated on their own at the sampling the container imposes on them (its delta)
                cv, cf = [], 0
                for k in range(nsurf):
                    r = build(SURFS[k % 2])
                    r.delta = c.delta
                    r.tessellate(vertex_spacing=s)
                    cv += [list(v.data) for v in r.vertices]
                    cf += len(r.faces)
                vids = [v.id for v in c.vertices]
                fids = [f.id for f in c.faces]
                # ... and again: forced, and after the same sampling has been assigned once more (no stacking, no second offset)
                for label, redo in (("force", lambda: c.tessellate(vertex_spacing=s, force=True)),
                                    ("same_sampling_again", lambda: (setattr(c, "delta", c.delta), c.tessellate(vertex_spacing=s)))):
                    redo()
                    v2 = [v.id for v in c.vertices]
                    okf = all(all(0 <= i < len(c.vertices) for i in f.vertex_ids) for f in c.faces)
                    if v2 != list(range(len(cv))) or len(c.faces) != cf or [f.id for f in c.faces] != list(range(cf)) or not okf or \
                            not close_seq([list(v.data) for v in c.vertices], cv, 1e-12):
                        ctx.violate("multi.SurfaceContainer.tessellate", t2 + ["again", label], small, {"n_vertices": len(v2), "expected": len(cv), "n_faces": len(c.faces)})
                        break
                if vids != list(range(len(cv))) or not close_seq([list(v.data) for v in c.vertices], cv, 1e-12) or len(c.faces) != cf or fids != list(range(cf)):
                    ctx.violate("multi.SurfaceContainer.tessellate", t2, small, {"vertex_ids": vids[:8], "n_faces": len(c.faces), "expected_faces": cf})
        except Exception as e:
            ctx.violate("exchange.export_*", t2 + ["raises"], small, {"exception": repr(e)[:300]})


def validate_meshes(ctx, meshes):
    """code -> spec: TLC evaluates ValidTriangulation on every recorded mesh"""
    if os.environ.get("VERIF_SKIP_TRACE") == "1":      # diagnostic campaigns only
        return 0
    if not meshes:
        raise core.MachineryError("no mesh recorded")
    d = tempfile.mkdtemp(prefix="verif_c15_")
    path = os.path.join(d, "meshes.json")
    with open(path, "w") as f:
        json.dump([{k: v for k, v in m.items() if not k.startswith("_")} for m in meshes], f)
    res = core.run_tlc("Trace_C15", "Trace_C15.cfg", env={"TRACE_FILE": path}, tags=("VERDICT",), timeout=1800)
    import shutil
    shutil.rmtree(d, ignore_errors=True)
    if res.error:
        raise core.MachineryError("Trace_C15 failed: %s\n%s" % (res.error, res.stdout_tail[-1500:]))
    ctx.add_tlc(res, "trace validation: ValidTriangulation evaluated by TLC on every mesh recorded from geomdl")
    verdicts = {v["id"]: v["verdict"] for _, v in res.cases}
    if len(verdicts) != len(meshes):
        raise core.MachineryError("verdicts %d != meshes %d" % (len(verdicts), len(meshes)))
    for m in meshes:
        site, tg, small, cs = m["_ctx"]
        if verdicts[m["id"]] != "valid":
            ctx.full = cs
            ctx.violate(site, tg + ["invalid_triangulation"], small, {"tris": m["tris"][:6]})
    return len(meshes)


THEOREMS = ["T_Valid: the specified mesh is a valid triangulation (in-range consecutive indices, CCW orientation, exact tiling by signed areas, "
            "edge incidence 2/1, Euler characteristic 1) for every sample size and admissible spacing", "T_TrimClasses"]


def run(ctx):
    res = core.run_tlc("MC_C15", "MC_C15_%s.cfg" % ctx.tier, timeout=1800)
    core.tlc_must_pass(res, "MC_C15")
    ctx.add_tlc(res, "all sample sizes 2..MaxS x admissible vertex spacings; quad meshes; polygonal trims")
    ctx.theorems = THEOREMS
    meshes = []
    ops = {}
    for tag, cs in res.cases:
        op = cs["out"]["op"]
        ops[op] = ops.get(op, 0) + 1
        if op == "tri":
            check_tri(ctx, cs, meshes)
        elif op == "quad":
            check_quad(ctx, cs)
        elif op == "trim":
            check_trim(ctx, cs)
    if len(ops) < 3:
        raise core.MachineryError("vacuous model: %s" % ops)
    for su, sv, s in ((3, 4, 1), (5, 3, 2), (4, 7, 3), (13, 9, 1), (9, 9, 4)):
        check_exports(ctx, su, sv, s)
    check_exports(ctx, 12, 9, 1, scale=0.001)
    check_exports(ctx, 4, 5, 1, scale=2.0 ** -40)
    nv = validate_meshes(ctx, meshes) if meshes else 0
    ctx.traces = len(res.cases) + nv
    ctx.extra.update({"cases": ops, "meshes_validated_by_tlc": nv})
    ctx.rule = "one case per (sample sizes, spacing, surface); every mesh returned by geomdl is validated by TLC against ValidTriangulation"
    ctx.assumptions = ["vertex parameters are compared on the integer sample lattice (|uv (n-1) - integer| <= 1e-9)",
                       "cells cut by a trim boundary (one-cell band) are unspecified"]


def replay(ctx, v):
    cs = v["full"]
    op = cs["out"]["op"]
    if op == "tri":
        meshes = []
        check_tri(ctx, cs, meshes)
        if meshes:
            validate_meshes(ctx, meshes)
    elif op == "quad":
        check_quad(ctx, cs)
    else:
        check_trim(ctx, cs)
