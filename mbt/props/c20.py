"""C20 - planar predicates and spatial queries agree with exact arithmetic (rays, winding, hull, orientation, voxels,
active control points)."""
from fractions import Fraction
from .. import core
from ..core import fr, frv, fl, close, close_seq
from ..adapter import build, shape_key
from .c01 import KIND, _try, tags_of


def check_planar(ctx, cs):
    from geomdl import ray, linalg
    ctx.full = cs
    c, o = cs["c"], cs["out"]
    op = o["op"]
    if op == "ray":
        r1, r2, res = c["r1"], o["r2"], o["res"]
        dim = len(r1[0])
        tg = ["ray%dd" % dim, res["status"]]
        small = {"r1": r1, "r2": r2}
        ctx.count(("ray", str(r1), str(r2)), sample={"op": "ray", **small, "expected": res})
        def run():
            # (both rays are built from the same two buffers, which are re-filled in between and overwritten afterwards)
            pbuf, dbuf = [float(x) for x in r1[0]], [float(x) for x in r1[1]]
            a = ray.Ray(pbuf, dbuf)
            pbuf[:] = [float(x) for x in r2[0]]
            dbuf[:] = [float(x) for x in r2[1]]
            b = ray.Ray(pbuf, dbuf)
            pbuf[:] = [9.0e9] * len(pbuf)
            dbuf[:] = [9.0e9] * len(dbuf)
            return ray.intersect(a, b), a, b
        ok, r = _try(ctx, "ray.intersect", tg, small, run)
        if not ok:
            return
        (t1, t2, st), a, b = r
        want = {"intersect": ray.RayIntersection.INTERSECT, "colinear": ray.RayIntersection.COLINEAR, "skew": ray.RayIntersection.SKEW}[res["status"]]
        if st != want:
            ctx.violate("ray.intersect", tg + ["status"], small, {"expected": res["status"], "got": st})
        elif res["status"] == "intersect":
            e1, e2 = Fraction(*res["t1"]), Fraction(*res["t2"])
            if not (close(t1, e1) and close(t2, e2)):
                ctx.violate("ray.intersect", tg + ["parameters"], small, {"expected": [float(e1), float(e2)], "got": [t1, t2]})
            elif not close_seq(list(a.eval(t1)), list(b.eval(t2)), 1e-9):
                ctx.violate("ray.intersect", tg + ["points_differ"], small, {"p1": a.eval(t1), "p2": b.eval(t2)})
    elif op == "poly":
        poly = [[float(x) for x in v] for v in o["poly"]]
        tg = ["polygon", "n=%d" % (len(poly) - 1), "ccw" if o["area2"] > 0 else "cw"]
        small = {"poly": o["poly"]}
        ctx.count(("poly", str(o["poly"])), sample={"op": "poly", **small, "n_inside": len(o["inside"])})
        vy = {v[1] for v in poly}
        for want, key in ((True, "inside"), (False, "outside")):
            for q in o[key]:
                pt = [q[0] / 2.0, q[1] / 2.0]
                t2 = tg + (["level_with_vertex"] if pt[1] in vy else [])
                ok, r = _try(ctx, "linalg.wn_poly", t2, dict(small, point=pt), lambda: linalg.wn_poly(pt, poly))
                if ok and bool(r) != want:
                    ctx.violate("linalg.wn_poly", t2, dict(small, point=pt), {"expected_inside": want, "got": r})
        # orientation test on the polygon's own vertices
        n = len(poly) - 1
        for i in range(n):
            p0, p1, p2 = o["poly"][i], o["poly"][(i + 1) % n], o["poly"][(i + 2) % n]
            exp = (p1[0] - p0[0]) * (p2[1] - p0[1]) - (p2[0] - p0[0]) * (p1[1] - p0[1])
            ok, r = _try(ctx, "linalg.is_left", tg, small, lambda: linalg.is_left([float(x) for x in p0], [float(x) for x in p1], [float(x) for x in p2]))
            if ok and not close(r, exp):
                ctx.violate("linalg.is_left", tg, dict(small, pts=[p0, p1, p2]), {"expected": exp, "got": r})
    elif op == "hull":
        S = sorted(o["S"])
        H = [tuple(p) for p in o["H"]]
        tg = ["hull", "n=%d" % len(S), "hull_size=%d" % len(H)]
        small = {"S": S}
        ctx.count(("hull", str(S)), sample={"op": "hull", **small, "H": o["H"]})
        for order in (S, S[::-1], S[1:] + S[:1]):
            ok, r = _try(ctx, "linalg.convex_hull", tg, small, lambda: linalg.convex_hull([list(map(float, p)) for p in order]))
            if ok:
                got = [tuple(int(x) for x in p) for p in r]
                # same cyclic sequence (counter-clockwise), any starting point
                same = len(got) == len(H) and any(got == H[k:] + H[:k] for k in range(len(H)))
                if not same:
                    ctx.violate("linalg.convex_hull", tg, small, {"expected_cyclic": H, "got": got})
                    break
    else:
        raise core.MachineryError("unknown op " + op)


def check_shape(ctx, cs):
    from geomdl import voxelize, operations
    ctx.full = cs
    sh, o = cs["sh"], cs["out"]
    pd = len(sh["deg"])
    tg = tags_of(sh) + ["sizes=" + "x".join(map(str, sh["size"]))]
    small = {"deg": sh["deg"], "size": sh["size"], "rat": sh["rat"]}
    ok, obj = _try(ctx, "build", tg, small, lambda: build(sh))
    if not ok:
        return
    if o["op"] == "voxelize":
        gs, ns = o["gs"], o["ns"]
        cubes = bool(o.get("cubes", False))
        small = dict(small, grid_size=gs, sample_size=ns, use_cubes=cubes)
        if cubes:
            tg = tg + ["use_cubes"]
        ctx.count(("voxelize", shape_key(sh), tuple(gs), tuple(ns), cubes), sample={"op": "voxelize", **small, "filled": o["filled"]})
        def run():
            if pd == 2:
                obj.sample_size_u, obj.sample_size_v = ns
            else:
                obj.sample_size_u, obj.sample_size_v, obj.sample_size_w = ns
            return voxelize.voxelize(obj, grid_size=tuple(gs), use_cubes=True) if cubes else voxelize.voxelize(obj, grid_size=tuple(gs))
        ok, r = _try(ctx, "voxelize.voxelize", tg, small, run)
        if not ok:
            return
        grid, filled = r
        exp_grid = [[frv(v[0]), frv(v[1])] for v in o["grid"]]
        if len(grid) != len(exp_grid):
            ctx.violate("voxelize.voxelize", tg + ["grid_size"], small, {"expected_voxels": len(exp_grid), "got": len(grid)})
            return
        if not close_seq([[list(v[0]), list(v[1])] for v in grid], exp_grid, 1e-9):
            ctx.violate("voxelize.voxelize", tg + ["grid_corners"], small, {"got0": grid[0], "expected0": fl(exp_grid[0])})
            return
        if [int(x) for x in filled] != list(o["filled"]):
            bad = [i for i, (a, b) in enumerate(zip(filled, o["filled"])) if int(a) != b]
            ctx.violate("voxelize.voxelize", tg + ["filled"], small, {"first_bad_voxel": bad[0], "expected": o["filled"][bad[0]], "n_bad": len(bad)})
        elif not cubes and o["filled"][-1] == 1 and ctx.extra.setdefault("mp_voxelisations", 0) < 8:
            # the last voxel is filled: the same answer with 2 and 3 worker processes (the count of voxels is not a multiple of both)
            ctx.extra["mp_voxelisations"] += 1
            for npr in (2, 3):
                if len(grid) % npr == 0:
                    continue
                def run_mp():
                    ob2 = build(sh)
                    if pd == 2:
                        ob2.sample_size_u, ob2.sample_size_v = ns
                    else:
                        ob2.sample_size_u, ob2.sample_size_v, ob2.sample_size_w = ns
                    return voxelize.voxelize(ob2, grid_size=tuple(gs), num_procs=npr)
                ok, r2 = _try(ctx, "voxelize.voxelize", tg + ["num_procs=%d" % npr], small, run_mp)
                if ok and [int(x) for x in r2[1]] != list(o["filled"]):
                    bad = [i for i, (a, b) in enumerate(zip(r2[1], o["filled"])) if int(a) != b]
                    ctx.violate("voxelize.voxelize", tg + ["num_procs=%d" % npr, "filled"], small, {"first_bad_voxel": bad[0], "voxels": len(grid), "n_bad": len(bad)})
    elif o["op"] == "find_ctrlpts":
        prm = [float(x) for x in frv(o["prm"])]
        small = dict(small, prm=o["prm"])
        ctx.count(("find_ctrlpts", shape_key(sh), tuple(map(tuple, o["prm"]))), sample={"op": "find_ctrlpts", **small, "idx": o["idx"]})
        from geomdl import helpers
        # after the grid view has been read and the shape moved in place, the look-up returns the moved points
        if pd == 2:
            def moved():
                ob = build(sh)
                _ = ob.ctrlpts2d
                operations.translate(ob, [7.0] * ob.dimension, inplace=True)
                r_ = operations.find_ctrlpts(ob, *prm)
                return [list(q) for row in r_ for q in row], [list(q) for q in ob.ctrlpts], ([list(q) for q in ob.ctrlptsw] if sh["rat"] else None)
            ok, r = _try(ctx, "operations.find_ctrlpts", tg + ["after_inplace_translate"], small, moved)
            if ok:
                un = [r[1][i] for i in o["idx"]]
                wt = [r[2][i] for i in o["idx"]] if sh["rat"] else un
                if not (close_seq(r[0], un) or close_seq(r[0], wt)):
                    ctx.violate("operations.find_ctrlpts", tg + ["after_inplace_translate"], small, {"got": r[0][:2], "expected": un[:2]})
        for sname, kw in (("default", {}), ("binsearch", {"find_span_func": helpers.find_span_binsearch})):
            t2 = tg + (["find_span_func=" + sname] if kw else [])
            ok, r = _try(ctx, "operations.find_ctrlpts", t2, small, lambda: operations.find_ctrlpts(obj, *prm, **kw))
            if ok:
                got = [list(p) for p in r] if pd == 1 else [list(p) for row in r for p in row]
                # spec gives the SET of active flat indices; the code returns points in (u outer, v inner) order = increasing flat index
                idxs = o["idx"]
                un = [list(obj.ctrlpts[i]) for i in idxs]
                wt = [list(obj.ctrlptsw[i]) for i in idxs] if sh["rat"] else un
                if not (close_seq(got, un) or close_seq(got, wt)):
                    ctx.violate("operations.find_ctrlpts", t2, small, {"expected_indices": idxs, "got": got[:4]})


THEOREMS = ["T_Ray: reported parameters give coinciding points on both rays (exact)", "T_Ray2D: planar rays never skew", "T_Hull: monotone chain output is a strictly "
            "convex counter-clockwise subset containing all points, starting at the lexicographic minimum", "T_Poly", "T_Covers: the voxel grid covers the bounding box"]


def run(ctx):
    res = core.run_tlc("MC_C20", "MC_C20_%s.cfg" % ctx.tier, timeout=3000)
    core.tlc_must_pass(res, "MC_C20")
    ctx.add_tlc(res, "all ray pairs on the grid, all simple polygons x off-boundary half-integer points, all point sets")
    resb = core.run_model(ctx, "MC_C20b", 3000, thorough_seeds=(2, 3, 5))
    core.tlc_must_pass(resb, "MC_C20b")
    ctx.add_tlc(resb, "voxelisation and active control point lookup on surfaces/volumes with different sizes")
    ctx.theorems = THEOREMS
    ops = {}
    for tag, cs in res.cases:
        k = cs["out"]["op"] + (":" + cs["out"]["res"]["status"] if cs["out"]["op"] == "ray" else "")
        ops[k] = ops.get(k, 0) + 1
        check_planar(ctx, cs)
    for tag, cs in resb.cases:
        ops[cs["out"]["op"]] = ops.get(cs["out"]["op"], 0) + 1
        check_shape(ctx, cs)
    if len(ops) < 7:
        raise core.MachineryError("vacuous model: %s" % ops)
    ctx.traces = len(res.cases) + len(resb.cases)
    ctx.extra["cases"] = ops
    ctx.rule = "one case per ray pair, per simple polygon (all query points), per point set, per (shape, grid size, sample size), per (shape, parameter)"
    ctx.assumptions = ["query points are off the polygon boundary", "parameters of colinear rays are unspecified", "voxel membership is closed-box membership "
                       "(the library pads voxels by 1e-7)"]


def replay(ctx, v):
    (check_shape if "sh" in v["full"] else check_planar)(ctx, v["full"])
