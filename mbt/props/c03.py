"""C03 - basis functions, span search, knot-vector utilities.
spec -> code: every transition of MC_C03 is one implementation test; expected values are the
DEFINITIONS (SpanDef, N via NDom, DN) evaluated exactly by TLC."""
from .. import core
from ..core import fr, frv, fl, close, close_seq


def _call(ctx, site, tags, case, fn, *a, **k):
    try:
        return True, fn(*a, **k)
    except Exception as e:  # a valid call must not fail
        ctx.violate(site, tags + ["raises"], case, {"exception": repr(e)})
        return False, None


def check_case(ctx, cs):
    from geomdl import helpers, knotvector
    c, o = cs["c"], cs["out"]
    ctx.full = cs
    p = c["p"]
    op = o["op"]
    tags = ["kind=" + c["kind"], "p=%d" % p]
    if op == "spans":
        U = fl(frv(c["U"]))
        us = [float(fr(x)) for x in o["us"]]
        small = {"p": p, "U": c["U"], "us": o["us"]}
        ctx.count(("spans", p, tuple(map(tuple, c["U"])), tuple(map(tuple, o["us"]))))
        for fname, f in (("default", None), ("linear", helpers.find_span_linear), ("binary", helpers.find_span_binsearch)):
            if f is None:
                ok, r = _call(ctx, "helpers.find_spans", tags + ["unsorted_list"], small, helpers.find_spans, p, U, o["nc"], list(us))
            else:
                ok, r = _call(ctx, "helpers.find_spans", tags + ["unsorted_list", fname], small, helpers.find_spans, p, U, o["nc"], list(us), f)
            if ok and list(r) != list(o["spans"]):
                ctx.violate("helpers.find_spans", tags + ["unsorted_list", fname], small, {"expected": o["spans"], "got": list(r)})
    elif op == "span":
        U = fl(frv(c["U"]))
        u = float(fr(o["u"]))
        nc = o["nc"]
        tg = tags + (["on_knot"] if o["mult"] > 0 else [])
        small = {"p": p, "U": c["U"], "u": o["u"]}
        ctx.count(("span", p, tuple(map(tuple, c["U"])), tuple(o["u"])))
        for name, f in (("helpers.find_span_linear", helpers.find_span_linear), ("helpers.find_span_binsearch", helpers.find_span_binsearch)):
            ok, r = _call(ctx, name, tg, small, f, p, U, nc, u)
            if ok and r != o["span"]:
                ctx.violate(name, tg, small, {"expected_span": o["span"], "got": r})
        ok, r = _call(ctx, "helpers.find_multiplicity", tg, small, helpers.find_multiplicity, u, U)
        if ok and r != o["mult"]:
            ctx.violate("helpers.find_multiplicity", tg, small, {"expected": o["mult"], "got": r})
    elif op == "eval":
        U = fl(frv(c["U"]))
        u = float(fr(o["u"]))
        nc = o["nc"]
        span = o["span"]
        at_end = fr(o["u"]) == fr(c["U"][nc])
        tg = tags + (["at_end"] if at_end else []) + (["on_knot"] if o["mult"] > 0 else [])
        small = {"p": p, "U": c["U"], "u": o["u"]}
        ctx.count(("eval", p, tuple(map(tuple, c["U"])), tuple(o["u"])), sample={"op": "eval", **small, "span": span, "N": o["Nact"]})
        for name, f in (("helpers.find_span_linear", helpers.find_span_linear), ("helpers.find_span_binsearch", helpers.find_span_binsearch)):
            ok, r = _call(ctx, name, tg, small, f, p, U, nc, u)
            if ok and r != span:
                ctx.violate(name, tg, small, {"expected_span": span, "got": r})
        ok, r = _call(ctx, "helpers.find_multiplicity", tg, small, helpers.find_multiplicity, u, U)
        if ok and r != o["mult"]:
            ctx.violate("helpers.find_multiplicity", tg, small, {"expected": o["mult"], "got": r})
        Nact = frv(o["Nact"])
        ok, r = _call(ctx, "helpers.basis_function", tg, small, helpers.basis_function, p, U, span, u)
        if ok:
            if not close_seq(r, Nact):
                ctx.violate("helpers.basis_function", tg, small, {"expected": fl(Nact), "got": r})
            elif abs(sum(r) - 1.0) > 1e-9 or min(r) < -1e-12:
                ctx.violate("helpers.basis_function", tg + ["unity"], small, {"got": r})
        # single-function variant for every index
        Nfull = frv(o["Nfull"])
        for i in range(nc):
            ok, r = _call(ctx, "helpers.basis_function_one", tg, small, helpers.basis_function_one, p, U, i, u)
            if ok and not close(r, Nfull[i]):
                ctx.violate("helpers.basis_function_one", tg, dict(small, i=i), {"expected": float(Nfull[i]), "got": r})
        # all degrees
        ok, r = _call(ctx, "helpers.basis_function_all", tg, small, helpers.basis_function_all, p, U, span, u)
        if ok:
            for deg in range(p + 1):
                exp = frv(o["Nall"][deg])
                got = [r[j][deg] for j in range(deg + 1)]
                if not close_seq(got, exp):
                    ctx.violate("helpers.basis_function_all", tg, dict(small, deg=deg), {"expected": fl(exp), "got": got})
        # derivatives of the non-vanishing functions, orders 0..p
        D = [frv(row) for row in o["D"]]
        for order in range(0, min(p, len(D) - 1) + 1):
            ok, r = _call(ctx, "helpers.basis_function_ders", tg, small, helpers.basis_function_ders, p, U, span, u, order)
            if ok:
                for k in range(order + 1):
                    if not close_seq(r[k], D[k], 1e-8):
                        ctx.violate("helpers.basis_function_ders", tg, dict(small, order=order, k=k), {"expected": fl(D[k]), "got": r[k]})
                    elif k >= 1 and abs(sum(r[k])) > 1e-7 * max(1.0, max(abs(x) for x in r[k])):
                        ctx.violate("helpers.basis_function_ders", tg + ["sum_zero"], dict(small, order=order, k=k), {"got": r[k]})
        # list wrapper: one table per (span, parameter) pair, in order
        omax = min(p, len(D) - 1)
        ok, r = _call(ctx, "helpers.basis_functions_ders", tg, small, helpers.basis_functions_ders, p, U, [span, span], [u, u], omax)
        if ok and not (len(r) == 2 and all(len(t) == omax + 1 and all(close_seq(t[k], D[k], 1e-8) for k in range(omax + 1)) for t in r)):
            ctx.violate("helpers.basis_functions_ders", tg, dict(small, order=omax), {"got_first": r[0][:2] if r else r})
        # derivatives of one basis function (A2.5 is defined on the half-open support, so not at the domain end)
        if not at_end:
            for j in range(p + 1):
                i = span - p + j
                mo = min(p, len(D) - 1)
                ok, r = _call(ctx, "helpers.basis_function_ders_one", tg, small, helpers.basis_function_ders_one, p, U, i, u, mo)
                if ok:
                    exp = [D[k][j] for k in range(mo + 1)]
                    if not close_seq(r, exp, 1e-8):
                        ctx.violate("helpers.basis_function_ders_one", tg, dict(small, i=i), {"expected": fl(exp), "got": r})
        # list wrappers
        ok, r = _call(ctx, "helpers.find_spans", tg, small, helpers.find_spans, p, U, nc, [u, u])
        if ok and r != [span, span]:
            ctx.violate("helpers.find_spans", tg, small, {"expected": [span, span], "got": r})
        ok, r = _call(ctx, "helpers.basis_functions", tg, small, helpers.basis_functions, p, U, [span], [u])
        if ok and not close_seq(r, [Nact]):
            ctx.violate("helpers.basis_functions", tg, small, {"expected": fl(Nact), "got": r})
    elif op == "generate":
        nc, cl = o["nc"], o["clamped"]
        small = {"p": p, "nc": nc, "clamped": cl}
        ctx.count(("generate", p, nc, cl), sample={"op": "generate", **small, "U": o["U"]})
        tg = tags + ["clamped" if cl else "unclamped"]
        ok, r = _call(ctx, "knotvector.generate", tg, small, knotvector.generate, p, nc, clamped=cl)
        if ok:
            if not close_seq(r, frv(o["U"])):
                ctx.violate("knotvector.generate", tg, small, {"expected": fl(frv(o["U"])), "got": r})
            ok2, r2 = _call(ctx, "knotvector.check", tg, small, knotvector.check, p, r, nc)
            if ok2 and r2 is not True:
                ctx.violate("knotvector.check", tg + ["generated"], small, {"expected": True, "got": r2})
            # the returned list belongs to the caller: editing it must not change what a later call returns
            try:
                r[len(r) // 2] = 99.0
                r.append(7.0)
            except Exception:
                pass
            ok3, r3 = _call(ctx, "knotvector.generate", tg + ["second_call"], small, knotvector.generate, p, nc, clamped=cl)
            if ok3 and not close_seq(r3, frv(o["U"])):
                ctx.violate("knotvector.generate", tg + ["second_call"], small, {"expected": fl(frv(o["U"])), "got": r3})
    elif op == "normalize":
        W = fl(frv(o["U"]))
        small = {"U": o["U"]}
        ctx.count(("normalize", tuple(map(tuple, o["U"]))), sample={"op": "normalize", **small, "norm": o["norm"]})
        ok, r = _call(ctx, "knotvector.normalize", tags, small, knotvector.normalize, W)
        if ok and not close_seq(r, frv(o["norm"])):
            ctx.violate("knotvector.normalize", tags, small, {"expected": fl(frv(o["norm"])), "got": r})
        if ok:
            try:
                r[0] = -5.0
            except Exception:
                pass
            ok, r = _call(ctx, "knotvector.normalize", tags + ["second_call"], small, knotvector.normalize, W)
            if ok and (not close_seq(r, frv(o["norm"])) or W != fl(frv(o["U"]))):
                ctx.violate("knotvector.normalize", tags + ["second_call"], small, {"expected": fl(frv(o["norm"])), "got": r})
    elif op == "check":
        W = fl(frv(o["U"]))
        small = {"p": p, "U": o["U"], "nc": o["nc"], "variant": o["variant"]}
        ctx.count(("check", p, tuple(map(tuple, o["U"])), o["nc"]), sample={"op": "check", **small, "ok": o["ok"]})
        ok, r = _call(ctx, "knotvector.check", tags + [o["variant"]], small, knotvector.check, p, W, o["nc"])
        if ok and bool(r) != o["ok"]:
            ctx.violate("knotvector.check", tags + [o["variant"]], small, {"expected": o["ok"], "got": r})
        # the object setters enforce the same rule: an invalid vector is rejected (ValueError), a valid one accepted
        from geomdl import BSpline
        try:
            crv = BSpline.Curve()
            crv.degree = p
            crv.ctrlpts = [[float(i), float((i * i) % 3)] for i in range(o["nc"])]
            try:
                crv.knotvector = W
                accepted = True
            except ValueError:
                accepted = False
            if accepted != o["ok"]:
                ctx.violate("Curve.knotvector.setter", tags + [o["variant"]], small, {"expected_accepted": o["ok"], "accepted": accepted})
        except Exception as e:
            ctx.violate("Curve.knotvector.setter", tags + [o["variant"], "raises"], small, {"exception": repr(e)[:200]})
    else:
        raise core.MachineryError("unknown op " + op)


def check_aliases_and_edit_back(ctx):
    """(a) the compatibility names in ``utilities`` are the same functions, keyword options included;  (b) a knot vector taken from the
    getter, spoilt in place and assigned back is rejected like any other invalid vector"""
    from geomdl import utilities, knotvector, BSpline
    ctx.full = {"aliases": True}
    for p_, n_, cl in ((2, 5, True), (2, 5, False), (3, 7, False), (1, 4, False)):
        small = {"p": p_, "nc": n_, "clamped": cl}
        ctx.count(("alias", p_, n_, cl), sample=small)
        try:
            a_ = utilities.generate_knot_vector(p_, n_, clamped=cl)
            b_ = knotvector.generate(p_, n_, clamped=cl)
            if list(a_) != list(b_):
                ctx.violate("utilities.generate_knot_vector", ["alias", "clamped" if cl else "unclamped"], small, {"alias": list(a_), "knotvector.generate": list(b_)})
            if utilities.check_knot_vector(p_, b_, n_) is not True or list(utilities.normalize_knot_vector([1.0, 1.0, 2.0, 3.0, 3.0])) != list(knotvector.normalize([1.0, 1.0, 2.0, 3.0, 3.0])):
                ctx.violate("utilities.check_knot_vector", ["alias"], small, {})
        except Exception as e:
            ctx.violate("utilities.generate_knot_vector", ["alias", "raises"], small, {"exception": repr(e)[:200]})
    for norm in (True, False):
        small = {"normalize_kv": norm}
        ctx.count(("kv_edit_back", norm), sample=small)
        try:
            c = BSpline.Curve(normalize_kv=norm)
            c.degree = 2
            c.ctrlpts = [[float(i), float(i * i % 3)] for i in range(5)]
            c.knotvector = [0.0, 0.0, 0.0, 0.25, 0.5, 1.0, 1.0, 1.0]
            kv = c.knotvector
            kv[3], kv[4] = 0.75, 0.5                    # decreasing now
            try:
                c.knotvector = kv
                ctx.violate("Curve.knotvector.setter", ["edit_back", "descent", "normalize_kv=%s" % norm], small, {"expected": "ValueError", "accepted": list(kv)})
            except ValueError:
                pass
        except Exception as e:
            ctx.violate("Curve.knotvector.setter", ["edit_back", "raises"], small, {"exception": repr(e)[:200]})


def check_setters(ctx):
    """the rule of knotvector.check is enforced by every per-direction setter of surfaces and volumes (sizes and degrees all
    different, so a check against another direction's count or degree shows)"""
    from geomdl import BSpline, knotvector
    ctx.full = {"setters": True}
    for kind, degs, sizes in (("surface", (1, 2), (3, 5)), ("surface", (3, 2), (5, 4)), ("volume", (1, 2, 3), (3, 4, 6)), ("volume", (3, 1, 2), (6, 3, 4))):
        pd = len(degs)
        for d in range(pd):
            nm = "uvw"[d]

            def fresh():
                o = BSpline.Surface() if pd == 2 else BSpline.Volume()
                for e in range(pd):
                    setattr(o, "degree_" + "uvw"[e], degs[e])
                n = 1
                for z in sizes:
                    n *= z
                o.set_ctrlpts([[float(i), float(i % 3), float(i % 5)] for i in range(n)], *sizes)
                return o
            good = knotvector.generate(degs[d], sizes[d])
            cands = {"ok": good, "short": good[1:], "long": good + [good[-1]], "descent_last": good[:-1] + [good[-2] - 0.25]}
            for e in range(pd):
                if e != d and (degs[e], sizes[e]) != (degs[d], sizes[d]):
                    cands["valid_for_" + "uvw"[e]] = knotvector.generate(degs[e], sizes[e])
            for label, kv in cands.items():
                small = {"kind": kind, "degrees": list(degs), "sizes": list(sizes), "direction": nm, "candidate": label}
                tg = ["setter", kind, "dir=" + nm, label]
                ctx.count(("setter", kind, degs, sizes, nm, label), sample=small)
                want = label == "ok" or (label.startswith("valid_for") and len(kv) == len(good))
                try:
                    o = fresh()
                    try:
                        setattr(o, "knotvector_" + nm, list(kv))
                        accepted = True
                    except ValueError:
                        accepted = False
                    if accepted != want:
                        ctx.violate("%s.knotvector_%s.setter" % (kind.capitalize(), nm), tg, small, {"expected_accepted": want, "accepted": accepted})
                except Exception as e:
                    ctx.violate("%s.knotvector_%s.setter" % (kind.capitalize(), nm), tg + ["raises"], small, {"exception": repr(e)[:200]})


THEOREMS = ["T_SpanUnique", "T_SpanAlgos (FindSpanLinear = FindSpanBinary = SpanDef)", "T_BasisFuns (A2.2 = Cox-de Boor)",
            "T_NonNeg", "T_Unity", "T_Local", "T_CoxDeBoor", "T_AllDegrees", "T_DerZero", "T_Generate", "T_Normalize", "T_Check"]


def run(ctx):
    cfg = "MC_C03_%s.cfg" % ctx.tier
    res = core.run_tlc("MC_C03", cfg, timeout=3000)
    core.tlc_must_pass(res, "MC_C03")
    ctx.add_tlc(res, "exhaustive; every transition emitted as an implementation test")
    ctx.theorems = THEOREMS
    ops = {}
    for tag, cs in res.cases:
        ops[cs["out"]["op"]] = ops.get(cs["out"]["op"], 0) + 1
        check_case(ctx, cs)
    for need in ("eval", "span", "spans", "generate", "normalize", "check"):
        if not ops.get(need):
            raise core.MachineryError("vacuous model: action %s never taken" % need)
    check_setters(ctx)
    check_aliases_and_edit_back(ctx)
    ctx.traces = len(res.cases)
    ctx.extra["transitions_by_action"] = ops
    ctx.rule = ("TLC enumerates (degree, knot vector, parameter) on the lattice of MC_C03_%s.cfg; one case per transition; "
                "distinct = distinct (op, degree, knot vector, parameter); all are non-trivial (each compares code output "
                "with the exact definition)" % ctx.tier)
    ctx.assumptions = ["floats compared with exact rationals at 1e-9 relative (1e-8 for derivatives)",
                       "lattice spacing >= 1/64, far from the library's own tolerances (1e-5 in find_span_binsearch)",
                       "basis_function_ders_one (A2.5) is checked on the half-open support only (not at the domain end)"]


def replay(ctx, v):
    if "setters" in v["full"]:
        return check_setters(ctx)
    if "aliases" in v["full"]:
        return check_aliases_and_edit_back(ctx)
    check_case(ctx, v["full"])
