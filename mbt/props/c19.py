"""C19 - equality of shapes is an equivalence that tracks the definition."""
import copy
from .. import core
from ..adapter import build, shape_key
from .c01 import KIND, _try


def check_case(ctx, cs):
    ctx.full = cs
    a, o = cs["a"], cs["out"]
    kind = KIND[len(a["deg"])]
    pk = o["kind"]
    tg = [kind, "rational" if a["rat"] else "nonrational", "perturb=" + pk]
    small = {"deg": a["deg"], "kv": a["kv"], "rat": a["rat"], "perturb": pk}
    ctx.count(("pair", shape_key(a), pk, core.json.dumps(o["B"], sort_keys=True)), sample={**small, "expected_equal": o["eq"]})
    extra = {"precision": o["precision"]} if "precision" in o else {}
    ok, A = _try(ctx, "build", tg, small, lambda: build(a, **extra))
    if not ok:
        return
    ok, B = _try(ctx, "build", tg, small, lambda: build(o["B"], **extra))
    if not ok:
        return
    site = "abstract.SplineGeometry.__eq__"
    exp = o["eq"]
    try:
        res = {"A==B": A == B, "B==A": B == A, "A!=B": A != B, "B!=A": B != A, "A==A": A == A, "A==deepcopy(A)": A == copy.deepcopy(A),
               "deepcopy(A)==A": copy.deepcopy(A) == A, "B==B": B == B}
    except Exception as e:
        ctx.violate(site, tg + ["raises"], small, {"exception": repr(e)[:200]})
        return
    want = {"A==B": exp, "B==A": exp, "A!=B": not exp, "B!=A": not exp, "A==A": True, "A==deepcopy(A)": True, "deepcopy(A)==A": True, "B==B": True}
    bad = {k: (res[k], want[k]) for k in want if bool(res[k]) != want[k]}
    if bad:
        ctx.violate(site, tg, small, {"got_vs_expected": bad})
    # the same comparison reached by EDITING an object that has already been compared: X == deepcopy(X), the copy is edited into
    # B through the public setters, compared, edited back, compared
    unit_range = all(U[0] == [0, 1] and U[-1] == [1, 1] for U in o["B"]["kv"] + a["kv"])    # (setters of a normalising object rescale other ranges)
    if a["deg"] == o["B"]["deg"] and a["size"] == o["B"]["size"] and a["rat"] == o["B"]["rat"] and unit_range:
        from ..adapter import shape_floats
        try:
            X = build(a, **extra)
            Y = copy.deepcopy(X)
            first = (X == Y) and (Y == X)

            def edit(obj, shp):
                f = shape_floats(shp)
                obj.set_ctrlpts([list(q) for q in f["P"]], *f["size"])
                if len(f["deg"]) == 1:
                    obj.knotvector = list(f["kv"][0])
                else:
                    for nm, U in zip("uvw", f["kv"]):
                        setattr(obj, "knotvector_" + nm, list(U))
            edit(Y, o["B"])
            second = {"X==Y": X == Y, "Y==X": Y == X, "X!=Y": X != Y}
            edit(Y, a)
            third = (X == Y) and (Y == X)
            if not first or not third or bool(second["X==Y"]) != exp or bool(second["Y==X"]) != exp or bool(second["X!=Y"]) == exp:
                ctx.violate(site, tg + ["compare_edit_compare"], small, {"before_edit": first, "after_edit": second, "expected_equal": exp, "after_undo": third})
        except Exception as e:
            ctx.violate(site, tg + ["compare_edit_compare", "raises"], small, {"exception": repr(e)[:200]})
    # a degree changed through the combined setter (``obj.degree = p`` / ``obj.degree = [pu, pv, pw]``) on a deep copy: unequal
    if a["deg"] != o["B"]["deg"] and a["rat"] == o["B"]["rat"] and len(a["deg"]) == len(o["B"]["deg"]):
        try:
            X = build(a, **extra)
            Y = copy.deepcopy(X)
            Y.degree = o["B"]["deg"][0] if len(a["deg"]) == 1 else list(o["B"]["deg"])
            got = list(Y._degree)
            if got != list(o["B"]["deg"]) or (X == Y) or (Y == X) or not (X != Y):
                ctx.violate(site, tg + ["degree_setter"], small, {"degree_after_setter": got, "expected": o["B"]["deg"], "X==Y": X == Y})
        except Exception as e:
            ctx.violate(site, tg + ["degree_setter", "raises"], small, {"exception": repr(e)[:200]})
    if pk == "same":
        import math
        from ..adapter import shape_floats as _sf
        f_ = _sf(a)
        pd_ = len(a["deg"])
        # (0) the same definition reached by correcting a weight through get / edit in place / set: equal to the plainly built one
        if a["rat"]:
            try:
                X = build(a, **extra)
                Y = build(a, edit_back=True, **extra)
                if not (X == Y and Y == X) or (X != Y):
                    ctx.violate(site, tg + ["weights_corrected_by_edit_back"], small, {"X==Y": X == Y})
                Z = build(a, by_setters=True, **extra)
                if not (X == Z and Z == X) or (X != Z):
                    ctx.violate(site, tg + ["built_by_setters"], small, {"X==Z": X == Z})
            except Exception as e:
                ctx.violate(site, tg + ["weights_corrected_by_edit_back", "raises"], small, {"exception": repr(e)[:200]})
        # (1) a deep copy that re-assigns its own unweighted control points (getters not used before) still equals its source
        if a["rat"]:
            try:
                X = build(a, **extra)
                Y = copy.deepcopy(X)
                Y.ctrlpts = [[c / q[-1] for c in q[:-1]] for q in f_["P"]]
                if not (X == Y and Y == X) or (X != Y):
                    ctx.violate(site, tg + ["copy_reassigns_own_ctrlpts"], small, {"X==Y": X == Y, "weights_of_copy": list(Y.weights)[:4]})
            except Exception as e:
                ctx.violate(site, tg + ["copy_reassigns_own_ctrlpts", "raises"], small, {"exception": repr(e)[:200]})
        # (2) one interior knot moved to the next floating point number: far more than the comparison tolerance (10^-precision)
        if "precision" not in extra:
            try:
                X = build(a)
                Y = copy.deepcopy(X)
                d_ = pd_ - 1
                U = list(f_["kv"][d_])
                p_ = a["deg"][d_]
                if len(U) > 2 * (p_ + 1) and U[0] == 0.0 and U[-1] == 1.0:
                    i_ = p_ + 1
                    U[i_] = math.nextafter(U[i_], 2.0) if U[i_] < U[i_ + 1] else math.nextafter(U[i_], -1.0)
                    if pd_ == 1:
                        Y.knotvector = U
                    else:
                        setattr(Y, "knotvector_" + "uvw"[d_], U)
                    if (X == Y) or (Y == X) or not (X != Y):
                        ctx.violate(site, tg + ["knot_moved_one_ulp"], small, {"X==Y": X == Y, "knot": U[i_]})
            except Exception as e:
                ctx.violate(site, tg + ["knot_moved_one_ulp", "raises"], small, {"exception": repr(e)[:200]})
    # two shapes defined from ONE list of points handed to both, one of them then edited in place through the list its getter
    # returns: the other keeps its definition, the two are unequal
    if pk == "same":
        try:
            from ..adapter import shape_floats, project
            f = shape_floats(a)
            shared = [list(q) for q in f["P"]]
            objs = []
            for _ in range(2):
                ob = build(a, **extra)
                ob.set_ctrlpts(shared, *f["size"])
                objs.append(ob)
            X, Y = objs
            before = copy.deepcopy(project(X))
            first = (X == Y)
            (Y.ctrlptsw if a["rat"] else Y.ctrlpts)[0][0] += 1.0
            Y.set_ctrlpts(list(Y.ctrlptsw if a["rat"] else Y.ctrlpts), *f["size"])      # (re-assign: caches follow the edit)
            if not first or project(X) != before or (X == Y) or (Y == X):
                ctx.violate(site, tg + ["shared_point_list"], small, {"equal_before": first, "X_changed": project(X) != before, "X==Y_after_edit": X == Y})
        except Exception as e:
            ctx.violate(site, tg + ["shared_point_list", "raises"], small, {"exception": repr(e)[:200]})
    if pk == "same":
        # a deep copy equals its source whatever the (user-chosen) object id, name or sampling is
        for oid in (1, 2, 3, 4):
            try:
                X = build(a, id=oid)
                X.sample_size = 3
                Y = copy.deepcopy(X)
                if not (X == Y and Y == X) or (X != Y):
                    ctx.violate("abstract.GeomdlBase.__deepcopy__", tg + ["id=%d" % oid], small, {"deepcopy_equals_source": False})
                    break
            except Exception as e:
                ctx.violate("abstract.GeomdlBase.__deepcopy__", tg + ["raises", "id=%d" % oid], small, {"exception": repr(e)[:200]})
                break


def check_edge_pairs(ctx):
    """pairs at the edge of the domain: a single Bezier span (degree + 1 control points) with a clamped and with an unclamped
    knot vector; a non-rational (d+1)-dimensional shape and a rational d-dimensional one whose stored arrays coincide"""
    from geomdl import BSpline, NURBS
    ctx.full = {"edge_pairs": True}
    site = "abstract.SplineGeometry.__eq__"
    P3 = [[0.0, 0.0, 1.0], [1.0, 2.0, 1.0], [3.0, 1.0, 1.0]]

    def crv(cls, pts, kv):
        c = cls()
        c.degree = 2
        if cls is NURBS.Curve:
            c.ctrlptsw = [list(q) for q in pts]
        else:
            c.ctrlpts = [list(q) for q in pts]
        c.knotvector = list(kv)
        return c

    def srf(kvv):
        s_ = BSpline.Surface()
        s_.degree_u, s_.degree_v = 1, 2
        s_.set_ctrlpts([[float(i), float(j), float((i * j) % 2)] for i in range(2) for j in range(3)], 2, 3)
        s_.knotvector_u = [0, 0, 1, 1]
        s_.knotvector_v = list(kvv)
        return s_
    clamped, uniform = [0, 0, 0, 1, 1, 1], [0, 0.2, 0.4, 0.6, 0.8, 1]
    pairs = [("bezier_span_knots/curve", lambda: (crv(BSpline.Curve, P3, clamped), crv(BSpline.Curve, P3, uniform)), False),
             ("bezier_span_knots/curve_same", lambda: (crv(BSpline.Curve, P3, uniform), crv(BSpline.Curve, P3, uniform)), True),
             ("bezier_span_knots/surface_v", lambda: (srf(clamped), srf(uniform)), False),
             ("rationality_with_equal_arrays", lambda: (crv(BSpline.Curve, P3, clamped), crv(NURBS.Curve, P3, clamped)), False)]
    # knot vectors from generate() given to two non-normalising curves, one knot of one curve then moved in place: the other curve
    # keeps its knots and the two differ; and a surface whose two directions were given ONE list: a knot of u moved in place leaves v alone
    from geomdl import knotvector as _kvm

    def gen_pair():
        a_ = BSpline.Curve(normalize_kv=False)
        b_ = BSpline.Curve(normalize_kv=False)
        for c_ in (a_, b_):
            c_.degree = 2
            c_.ctrlpts = [[float(i), float(i * i % 3)] for i in range(5)]
            c_.knotvector = _kvm.generate(2, 5)
        b_.knotvector[3] = 0.4
        return a_, b_

    def shared_dirs():
        kv_ = [0.0, 0.0, 0.0, 0.5, 1.0, 1.0, 1.0]
        s1_, s2_ = BSpline.Surface(), BSpline.Surface()
        for s_, kvs in ((s1_, [kv_, kv_]), (s2_, [list(kv_), list(kv_)])):
            s_.degree_u, s_.degree_v = 2, 2
            s_.set_ctrlpts([[float(i), float(j), float((i * j) % 3)] for i in range(4) for j in range(4)], 4, 4)
            s_.knotvector = kvs
        s1_.knotvector_u[3] = 0.25
        s2_.knotvector_u[3] = 0.25
        return s1_, s2_
    pairs += [("generated_knots_edited_in_place", gen_pair, False), ("one_list_for_both_directions", shared_dirs, True)]
    for label, mk, want in pairs:
        small = {"pair": label}
        tg = ["edge_pair", label]
        ctx.count(("edge_pair", label), sample=small)
        try:
            A, B = mk()
            res = {"A==B": A == B, "B==A": B == A, "A!=B": A != B}
            if bool(res["A==B"]) != want or bool(res["B==A"]) != want or bool(res["A!=B"]) == want:
                ctx.violate(site, tg, small, {"got": res, "expected_equal": want})
        except Exception as e:
            ctx.violate(site, tg + ["raises"], small, {"exception": repr(e)[:200]})


THEOREMS = ["T_Tracks: the definition of equality separates every single-component perturbation and every kind/rationality twin",
            "T_Symmetric"]


def run(ctx):
    res = core.run_model(ctx, "MC_C19", 1200, thorough_seeds=(2, 3, 5, 7))
    core.tlc_must_pass(res, "MC_C19")
    ctx.add_tlc(res, "every shape x every single-component perturbation (each coordinate, weight, interior knot, degree) and the twins")
    ctx.theorems = THEOREMS
    kinds = {}
    for tag, cs in res.cases:
        kinds[cs["out"]["kind"]] = kinds.get(cs["out"]["kind"], 0) + 1
        check_case(ctx, cs)
    if len(kinds) < 9:
        raise core.MachineryError("vacuous model: %s" % kinds)
    check_edge_pairs(ctx)
    ctx.traces = len(res.cases)
    ctx.extra["pairs_by_perturbation"] = kinds
    ctx.rule = "one case per (shape, perturbation); == and != evaluated both ways, plus reflexivity and deep copy"
    ctx.assumptions = ["perturbations are one lattice step (1/64), far above the comparison tolerance"]


def replay(ctx, v):
    if "edge_pairs" in v["full"]:
        return check_edge_pairs(ctx)
    check_case(ctx, v["full"])
