"""C13 - one control-net layout convention across all modules."""
from .. import core
from ..core import fr, frv, fl, close_seq
from ..adapter import build, project, same_def, shape_key
from .c01 import KIND, _try, tags_of


def fpts(P):
    return [[float(x) for x in frv(p)] for p in P]


def check_case(ctx, cs):
    from geomdl import construct, sweeping, operations, compatibility, control_points
    ctx.full = cs
    sh, o = cs["sh"], cs["out"]
    op = o["op"]
    pd = len(sh["deg"])
    tg = tags_of(sh) + ["sizes=" + "x".join(map(str, sh["size"]))]
    small = {"deg": sh["deg"], "size": sh["size"], "rat": sh["rat"], "op": op}
    ctx.count((op, shape_key(sh)), sample=small)
    ok, obj = _try(ctx, "build", tg, small, lambda: build(sh))
    if not ok:
        return
    kvf = [[float(fr(k)) for k in U] for U in sh["kv"]]
    if op == "ctrlpts2d":
        su, sv = sh["size"]
        grid = [fpts(r) for r in o["grid"]]
        ok, r = _try(ctx, "Surface.ctrlpts2d", tg, small, lambda: [list(map(list, row)) for row in obj.ctrlpts2d])
        if ok and not close_seq(r, grid):
            ctx.violate("Surface.ctrlpts2d", tg, small, {"got_row0": r[0], "expected_row0": grid[0]})
        P = fpts(sh["P"])
        urow = fpts(o["urow"])
        for site, fn, exp in (("compatibility.flip_ctrlpts", lambda: compatibility.flip_ctrlpts(P, su, sv), urow),
                              ("compatibility.flip_ctrlpts_u", lambda: compatibility.flip_ctrlpts_u(urow, su, sv), P),
                              ("compatibility.flip_ctrlpts2d", lambda: compatibility.flip_ctrlpts2d(grid), [[grid[i][j] for i in range(su)] for j in range(sv)])):
            ok, r = _try(ctx, site, tg, small, fn)
            if ok and not close_seq(r, exp):
                ctx.violate(site, tg, small, {"got": r[:3], "expected": exp[:3]})
        # the file wrapper of the 2-D flip: rows and columns change places in the file as well
        import os, tempfile, shutil
        d = tempfile.mkdtemp(prefix="verif_c13_")
        try:
            fi, fo = os.path.join(d, "in.txt"), os.path.join(d, "out.txt")
            with open(fi, "w") as f:
                for row in grid:
                    f.write(";".join(",".join(repr(float(x)) for x in q) for q in row) + "\n")

            def flipfile():
                compatibility.flip_ctrlpts2d_file(fi, fo)
                with open(fo) as f:
                    return [[[float(x) for x in q.split(",")] for q in line.strip().split(";")] for line in f if line.strip()]
            ok, r = _try(ctx, "compatibility.flip_ctrlpts2d_file", tg, small, flipfile)
            if ok and not close_seq(r, [[grid[i][j] for i in range(su)] for j in range(sv)]):
                ctx.violate("compatibility.flip_ctrlpts2d_file", tg, small, {"rows": len(r), "expected_rows": sv, "row0": r[0] if r else r})
        finally:
            shutil.rmtree(d, ignore_errors=True)
        # the 2-D text file of the net (one row of the grid per line), also with empty lines around the rows: the reader reports
        # the grid sizes in the (u, v) order of every other module and the flat list in the common layout
        from geomdl import exchange
        d2 = tempfile.mkdtemp(prefix="verif_c13t_")
        try:
            f1, f2 = os.path.join(d2, "g.txt"), os.path.join(d2, "g_padded.txt")
            exchange.export_txt(obj, f1, two_dimensional=True)
            rows = open(f1).read().strip().split("\n")
            with open(f2, "w") as fb:
                fb.write("\n" + "\n".join(rows) + "\n\n")
            flat = [list(q) for q in (obj.ctrlptsw if sh["rat"] else obj.ctrlpts)]
            for label, fn_ in (("as_written", f1), ("blank_lines", f2)):
                ok, r = _try(ctx, "exchange.import_txt", tg + ["two_dimensional", label], small, lambda: exchange.import_txt(fn_, two_dimensional=True))
                if ok and (list(r[1:]) != [su, sv] or not close_seq([list(q) for q in r[0]], flat, 1e-12)):
                    ctx.violate("exchange.import_txt", tg + ["two_dimensional", label], small, {"sizes": list(r[1:]), "expected": [su, sv]})
        except Exception as e:
            ctx.violate("exchange.export_txt", tg + ["two_dimensional", "raises"], small, {"exception": repr(e)[:200]})
        finally:
            shutil.rmtree(d2, ignore_errors=True)
        # setter round trip
        ok, o2 = _try(ctx, "Surface.ctrlpts2d.setter", tg, small, lambda: build(sh))
        if ok:
            def setit():
                o2.ctrlpts2d = grid
                return project(o2)
            ok, r = _try(ctx, "Surface.ctrlpts2d.setter", tg, small, setit)
            if ok and same_def(r, sh):
                ctx.violate("Surface.ctrlpts2d.setter", tg, small, {"field": same_def(r, sh)})
    elif op == "extract_curves":
        def extract_and_compare(expected, extra):
            ok, ex = _try(ctx, "construct.extract_curves", tg + extra, small, lambda: construct.extract_curves(obj))
            if not ok:
                return None
            for d in ("u", "v"):
                if len(ex[d]) != len(expected[d]):
                    ctx.violate("construct.extract_curves", tg + extra + ["dir=" + d, "count"], small, {"expected": len(expected[d]), "got": len(ex[d])})
                    return None
                for i, (a, e) in enumerate(zip(ex[d], expected[d])):
                    bad = same_def(project(a), e)
                    if bad:
                        ctx.violate("construct.extract_curves", tg + extra + ["dir=" + d], small, {"index": i, "field": bad})
                        return None
            return ex
        ex = extract_and_compare(o["ex"], [])
        if ex is None:
            return
        # the keyword options select one family of curves; the selected family is unchanged, the other one is empty
        for opt, keep, drop in (({"extract_u": False}, "v", "u"), ({"extract_v": False}, "u", "v")):
            ok, e1 = _try(ctx, "construct.extract_curves", tg + sorted(opt), small, lambda: construct.extract_curves(obj, **opt))
            if ok:
                if len(e1[drop]) != 0 or len(e1[keep]) != len(o["ex"][keep]) or any(same_def(project(a), e) for a, e in zip(e1[keep], o["ex"][keep])):
                    ctx.violate("construct.extract_curves", tg + sorted(opt), small, {"kept": len(e1[keep]), "dropped_family_len": len(e1[drop])})
        for cdir, key, k in (("u", "v", 0), ("v", "u", 1)):
            for rep in (1, 2):          # the same sections are used twice: construction must not consume or alter them
                t2 = tg + ["dir=" + cdir] + (["repeated"] if rep == 2 else [])
                ok, s2 = _try(ctx, "construct.construct_surface", t2, small,
                              lambda: construct.construct_surface(cdir, *ex[key], degree=sh["deg"][k], knotvector=kvf[k]))
                if ok:
                    bad = same_def(project(s2), sh)
                    if bad:
                        ctx.violate("construct.construct_surface", t2, small, {"field": bad})
        # the same surface object after an in-place change: the extraction follows the current control net
        ok, _r = _try(ctx, "operations.flip", tg + ["inplace"], small, lambda: operations.flip(obj, inplace=True))
        if ok:
            extract_and_compare(o["ex2"], ["after_flip"])
    elif op == "extract_surfaces":
        def extract_and_compare(expected, extra):
            ok, ex = _try(ctx, "construct.extract_surfaces", tg + extra, small, lambda: construct.extract_surfaces(obj))
            if not ok:
                return None
            for d in ("uv", "uw", "vw"):
                if len(ex[d]) != len(expected[d]):
                    ctx.violate("construct.extract_surfaces", tg + extra + ["set=" + d, "count"], small, {"expected": len(expected[d]), "got": len(ex[d])})
                    return None
                for i, (a, e) in enumerate(zip(ex[d], expected[d])):
                    bad = same_def(project(a), e)
                    if bad:
                        ctx.violate("construct.extract_surfaces", tg + extra + ["set=" + d], small, {"index": i, "field": bad})
                        return None
            return ex
        ex = extract_and_compare(o["ex"], [])
        if ex is None:
            return
        for cdir, key, k in (("w", "uv", 2), ("v", "uw", 1), ("u", "vw", 0)):
            for rep in (1, 2):          # the same sections are used twice
                t2 = tg + ["dir=" + cdir] + (["repeated"] if rep == 2 else [])
                ok, v2 = _try(ctx, "construct.construct_volume", t2, small,
                              lambda: construct.construct_volume(cdir, *ex[key], degree=sh["deg"][k], knotvector=kvf[k]))
                if ok:
                    bad = same_def(project(v2), sh)
                    if bad:
                        ctx.violate("construct.construct_volume", t2, small, {"field": bad})
        # the six boundary faces: first and last section of every set, in the documented order
        ok, iso = _try(ctx, "construct.extract_isosurface", tg, small, lambda: construct.extract_isosurface(obj))
        if ok:
            want = [o["ex"]["uv"][0], o["ex"]["uv"][-1], o["ex"]["uw"][0], o["ex"]["uw"][-1], o["ex"]["vw"][0], o["ex"]["vw"][-1]]
            if len(iso) != 6:
                ctx.violate("construct.extract_isosurface", tg + ["count"], small, {"got": len(iso)})
            else:
                for i, (a, e) in enumerate(zip(iso, want)):
                    bad = same_def(project(a), e)
                    if bad:
                        ctx.violate("construct.extract_isosurface", tg, small, {"face": i, "field": bad})
                        break
        vec = [float(x) for x in frv(o["vec"])]
        ok, _r = _try(ctx, "operations.translate", tg + ["inplace"], small, lambda: operations.translate(obj, vec, inplace=True))
        if ok:
            extract_and_compare(o["ex2"], ["after_translate"])
    elif op in ("transpose", "flip"):
        fn = operations.transpose if op == "transpose" else operations.flip
        try:
            next(iter(obj))            # an iteration over the surface left early beforehand
        except Exception:
            pass
        ok, r = _try(ctx, "operations." + op, tg, small, lambda: fn(obj))
        if ok:
            bad = same_def(project(r), o["res"])
            if bad:
                ctx.violate("operations." + op, tg, small, {"field": bad})
            if same_def(project(obj), sh):
                ctx.violate("operations." + op, tg + ["input_modified"], small, {})
        # every public view addresses the same points after the in-place operation (the views were read before it)
        from ..histories import read_view
        views = ["ctrlpts", "ctrlpts2d"] + (["weights", "ctrlptsw"] if sh["rat"] else [])
        for v in views:
            read_view(obj, v)
        ok, r = _try(ctx, "operations." + op, tg + ["inplace"], small, lambda: fn(obj, inplace=True))
        if ok:
            bad = same_def(project(obj), o["res"])
            if bad:
                ctx.violate("operations." + op, tg + ["inplace"], small, {"field": bad})
            else:
                tw = build(o["res"])
                for v in views:
                    if not close_seq(read_view(obj, v), read_view(tw, v)):
                        ctx.violate("operations." + op, tg + ["inplace", "view=" + v], small, {"view": v})
                        break
    elif op == "sweep":
        vec = [float(x) for x in frv(o["vec"])]
        for rep in (1, 2):              # sweeping the same object twice gives the same result and leaves it alone
            t2 = tg + (["repeated"] if rep == 2 else [])
            ok, r = _try(ctx, "sweeping.sweep_vector", t2, small, lambda: sweeping.sweep_vector(obj, vec))
            if ok:
                bad = same_def(project(r), o["res"])
                if bad:
                    ctx.violate("sweeping.sweep_vector", t2, small, {"field": bad, "got_size": list(r._control_points_size), "expected_size": o["res"]["size"]})
            if same_def(project(obj), sh):
                ctx.violate("sweeping.sweep_vector", t2 + ["input_modified"], small, {"field": same_def(project(obj), sh)})
    elif op == "index":
        size = sh["size"]
        P = fpts(sh["P"])
        Mgr = control_points.SurfaceManager if pd == 2 else control_points.VolumeManager
        site = "control_points." + Mgr.__name__
        ok, m = _try(ctx, site, tg, small, lambda: Mgr(*size))
        if not ok:
            return
        try:
            for iu in range(size[0]):
                for iv in range(size[1]):
                    for iw in range(size[2] if pd == 3 else 1):
                        args = (iu, iv) if pd == 2 else (iu, iv, iw)
                        exp = o["tab"][iu][iv] if pd == 2 else o["tab"][iu][iv][iw]
                        got = m.find_index(*args)
                        if got != exp:
                            ctx.violate(site + ".find_index", tg, small, {"args": args, "expected": exp, "got": got})
                            return
                        m.set_ctrlpt(P[exp], *args)
            if not close_seq([list(p) for p in m.ctrlpts], P):
                ctx.violate(site + ".set_ctrlpt", tg, small, {})
            # reading through the manager: the points of an existing shape are found at the same (u, v, w)
            m2 = Mgr(*size, tag=1, vec=2)
            m2.ctrlpts = [list(q) for q in P]
            for iu in range(size[0]):
                for iv in range(size[1]):
                    for iw in range(size[2] if pd == 3 else 1):
                        args = (iu, iv) if pd == 2 else (iu, iv, iw)
                        exp = o["tab"][iu][iv] if pd == 2 else o["tab"][iu][iv][iw]
                        if not close_seq(list(m2.get_ctrlpt(*args)), P[exp]):
                            ctx.violate(site + ".get_ctrlpt", tg, small, {"args": args, "expected_index": exp})
                            return
                        m2.set_ptdata({"tag": float(exp), "vec": [float(exp), -float(exp)]}, *args)
            for iu in range(size[0]):
                for iv in range(size[1]):
                    for iw in range(size[2] if pd == 3 else 1):
                        args = (iu, iv) if pd == 2 else (iu, iv, iw)
                        exp = o["tab"][iu][iv] if pd == 2 else o["tab"][iu][iv][iw]
                        if m2.get_ptdata("tag", *args) != float(exp) or list(m2.get_ptdata("vec", *args)) != [float(exp), -float(exp)]:
                            ctx.violate(site + ".get_ptdata", tg, small, {"args": args, "expected": exp, "got": m2.get_ptdata("tag", *args)})
                            return
            if len(m2) != len(P) or [list(q) for q in m2] != [list(q) for q in P]:
                ctx.violate(site + ".__iter__", tg, small, {})
        except Exception as e:
            ctx.violate(site, tg + ["raises"], small, {"exception": repr(e)[:200]})
    else:
        raise core.MachineryError("unknown op " + op)


THEOREMS = ["T_Extract2 / T_Extract3: construct(extract) along the matching direction is the identity", "T_Index: managers address v + size_v (u + size_u w)",
            "T_View2D: ctrlpts2d[u][v] = flat[v + size_v u]; flip_ctrlpts_u o flip_ctrlpts = id", "T_Transpose: Point(transpose(s))(v, u) = Point(s)(u, v)",
            "T_Sweep: the two opposite boundary sections are the input and its translate"]


def run(ctx):
    res = core.run_model(ctx, "MC_C13", 1800, thorough_seeds=(2, 3, 5, 7))
    core.tlc_must_pass(res, "MC_C13")
    ctx.add_tlc(res, "surfaces and volumes with pairwise different sizes x every layout operation")
    ctx.theorems = THEOREMS
    ops = {}
    for tag, cs in res.cases:
        ops[cs["out"]["op"]] = ops.get(cs["out"]["op"], 0) + 1
        check_case(ctx, cs)
    if len(ops) < 7:
        raise core.MachineryError("vacuous model: %s" % ops)
    ctx.traces = len(res.cases)
    ctx.extra["cases_by_operation"] = ops
    ctx.rule = "one case per (shape with pairwise different sizes, operation)"
    ctx.assumptions = ["control nets are generic integer nets, so every misplaced point changes the definition", "1e-9 relative tolerance"]


def replay(ctx, v):
    check_case(ctx, v["full"])
