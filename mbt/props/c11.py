"""C11 - fitted curves and surfaces meet interpolation and least-squares conditions.
TLC supplies exact parameters, the exact averaged knot vectors and the exact collocation matrices; the replay checks the
DEFINING CONDITIONS on the control points returned by geomdl.fitting (independently of geomdl's evaluator) and through the
evaluator as well."""
from .. import core
from ..core import fr, frv, fl, close, close_seq
from .c01 import _try

TOL = 1e-7


def mat(M):
    return [[float(fr(x)) for x in row] for row in M]


def vclose(a, b, tol=TOL):
    sc = max([1.0] + [abs(x) for x in b])
    return len(a) == len(b) and all(abs(x - y) <= tol * sc for x, y in zip(a, b))


def exact_colloc(p, U, uk):
    """basis values N_{i,p}(u_k) in exact arithmetic (Cox-de Boor definition, closed at the domain end) - used where the
    entries exceed TLC's integers"""
    n = len(U) - p - 1

    def N(i, q, u):
        if q == 0:
            if U[i] <= u < U[i + 1]:
                return 1
            return 1 if (u == U[n] and U[i] < U[i + 1] == U[n]) else 0
        a = (u - U[i]) / (U[i + q] - U[i]) * N(i, q - 1, u) if U[i + q] != U[i] else 0
        b = (U[i + q + 1] - u) / (U[i + q + 1] - U[i + 1]) * N(i + 1, q - 1, u) if U[i + q + 1] != U[i + 1] else 0
        return a + b
    return [[N(i, p, u) for i in range(n)] for u in uk]


def check_case(ctx, cs):
    from geomdl import fitting
    ctx.full = cs
    c, o = cs["c"], cs["out"]
    op = o["op"]
    tg = [op, "centripetal" if c["centr"] else "chord", "dim=%d" % c["dim"]]
    if op in ("interp_curve", "approx_curve"):
        pts = [[float(x) for x in p] for p in o["pts"]]
        p = o["p"]
        uk = [float(fr(x)) for x in o["uk"]]
        kv = [float(fr(x)) for x in o["kv"]]
        N = mat(o["N"]) if o["N"] else [[float(x) for x in row] for row in exact_colloc(p, frv(o["kv"]), frv(o["uk"]))]
        m = len(pts)
        small = {"pts": o["pts"], "degree": p, "centripetal": c["centr"]}
        if op == "interp_curve":
            tg += ["p=%d" % p, "npts=%d" % m] + (["bezier"] if m == p + 1 else [])
            ctx.count((op, str(o["pts"]), p, c["centr"]), sample={"op": op, **small, "uk": o["uk"], "kv": o["kv"]})
            def interp():
                if c["centr"]:
                    return fitting.interpolate_curve([list(x) for x in pts], p, centripetal=True)
                # chord length is the default: an earlier call with other options must not change what an option-free call does
                fitting.interpolate_curve([list(x) for x in pts], p, centripetal=True)
                return fitting.interpolate_curve([list(x) for x in pts], p)
            ok, crv = _try(ctx, "fitting.interpolate_curve", tg, small, interp)
            if not ok:
                return
            site = "fitting.interpolate_curve"
            ncp = m
        else:
            ncp = o["n"]
            small["ctrlpts_size"] = ncp
            tg += ["p=%d" % p, "npts=%d" % m, "ncpts=%d" % ncp]
            ctx.count((op, str(o["pts"]), p, ncp, c["centr"]), sample={"op": op, **small, "kv": o["kv"]})
            def approx():
                if c["centr"]:
                    return fitting.approximate_curve([list(x) for x in pts], p, centripetal=True, ctrlpts_size=ncp)
                # defaults (chord length; number of data points - 1 control points) after a call with explicit other options
                if m - 2 >= p + 2:          # (counts below degree + 2 are outside what the property quantifies over)
                    fitting.approximate_curve([list(x) for x in pts], p, centripetal=True, ctrlpts_size=m - 2)
                if ncp == m - 1:
                    return fitting.approximate_curve([list(x) for x in pts], p)
                return fitting.approximate_curve([list(x) for x in pts], p, ctrlpts_size=ncp)
            ok, crv = _try(ctx, "fitting.approximate_curve", tg, small, approx)
            if not ok:
                return
            site = "fitting.approximate_curve"
        if crv.degree != p or crv.ctrlpts_size != ncp:
            ctx.violate(site, tg + ["structure"], small, {"degree": crv.degree, "ctrlpts_size": crv.ctrlpts_size})
            return
        # the data as a tuple of lists: it is not altered by the call, and the same call again returns the same curve (as a new object)
        def twice():
            data = tuple(list(x) for x in pts)
            f_ = (lambda: fitting.interpolate_curve(data, p, centripetal=c["centr"])) if op == "interp_curve" else (lambda: fitting.approximate_curve(data, p, centripetal=c["centr"], ctrlpts_size=ncp))
            c1 = f_()
            snap1 = ([list(q) for q in c1.ctrlpts], list(c1.knotvector), c1.degree)
            c2 = f_()
            return [list(x) for x in data], snap1, ([list(q) for q in c2.ctrlpts], list(c2.knotvector), c2.degree), ([list(q) for q in c1.ctrlpts], list(c1.knotvector), c1.degree), c1 is c2
        ok, r_ = _try(ctx, site, tg + ["tuple_of_lists", "called_twice"], small, twice)
        if ok:
            if not close_seq(r_[0], pts, 1e-15):
                ctx.violate(site, tg + ["input_modified"], small, {"data_after": r_[0][:3]})
            elif r_[4] or not close_seq(list(r_[2][0]), [list(x) for x in crv.ctrlpts], 1e-9) or not close_seq(list(r_[3][0]), r_[1][0], 1e-15) or r_[3][2] != r_[1][2]:
                ctx.violate(site, tg + ["called_twice"], small, {"same_object_returned": r_[4], "second_first_point": r_[2][0][0]})
        # fitting commutes with translations and uniform scalings (the parameters are ratios of lengths): the same data far from the
        # origin (offset 2^20 + 0.1 per coordinate, not a machine number) and in a very small unit (factor 2^-30) - same knot vector, control points moved / scaled
        base = [list(x) for x in crv.ctrlpts]
        for label, fwd, back, tolv in (("offset=2^20+0.1", lambda q: [x + (2.0 ** 20 + 0.1) for x in q], lambda q: [x - (2.0 ** 20 + 0.1) for x in q], 1e-6),
                                       ("unit=2^-30", lambda q: [x * 2.0 ** -30 for x in q], lambda q: [x * 2.0 ** 30 for x in q], 1e-7)):
            def variant():
                data = [fwd(list(x)) for x in pts]
                if op == "interp_curve":
                    return fitting.interpolate_curve(data, p, centripetal=True) if c["centr"] else fitting.interpolate_curve(data, p)
                return fitting.approximate_curve(data, p, centripetal=c["centr"], ctrlpts_size=ncp)
            ok, cv2 = _try(ctx, site, tg + [label], small, variant)
            if not ok:
                continue
            if not close_seq(list(cv2.knotvector), kv, 1e-9):
                ctx.violate(site, tg + [label, "knot_vector"], small, {"expected": kv, "got": list(cv2.knotvector)})
                continue
            got = [back(list(q)) for q in cv2.ctrlpts]
            if not all(vclose(a_, b_, tolv) for a_, b_ in zip(got, base)):
                ctx.violate(site, tg + [label], small, {"got0": got[0], "expected0": base[0]})
            else:
                # the chord lengths change with this map, so only data whose last coordinate is constant keep their parameters
                if len({q[-1] for q in pts}) != 1:
                    continue
                got = [back(list(q)) for q in cv2.ctrlpts]
                if not close_seq(list(cv2.knotvector), kv, 1e-9) or not all(vclose(a, b, 1e-7) for a, b in zip(got, base)):
                    ctx.violate(site, tg + [label], small, {"got0": got[0], "expected0": base[0]})
        if not close_seq(list(crv.knotvector), kv, 1e-9):
            ctx.violate(site, tg + ["knot_vector"], small, {"expected": kv, "got": list(crv.knotvector)})
            return
        P = [list(x) for x in crv.ctrlpts]
        fitted = [[sum(N[k][i] * P[i][d] for i in range(ncp)) for d in range(len(pts[0]))] for k in range(m)]
        if op == "interp_curve":
            for k in range(m):
                if not vclose(fitted[k], pts[k]):
                    ctx.violate(site, tg + ["interpolation_condition"], small, {"k": k, "sum_N_P": fitted[k], "Q_k": pts[k]})
                    return
                ev = crv.evaluate_single(uk[k])
                if not vclose(ev, pts[k]):
                    ctx.violate(site, tg + ["evaluate_at_param"], small, {"k": k, "evaluate_single": ev, "Q_k": pts[k]})
                    return
        else:
            if not (vclose(P[0], pts[0]) and vclose(P[-1], pts[-1])):
                ctx.violate(site, tg + ["end_points"], small, {"P0": P[0], "Pn": P[-1]})
                return
            # normal equations: for every interior control point i, sum_k N[k][i] (C(u_k) - Q_k) = 0 over interior data points
            for i in range(1, ncp - 1):
                res = [sum(N[k][i] * (fitted[k][d] - pts[k][d]) for k in range(1, m - 1)) for d in range(len(pts[0]))]
                sc = max(1.0, max(abs(x) for q in pts for x in q))
                if any(abs(r) > 1e-6 * sc for r in res):
                    ctx.violate(site, tg + ["normal_equations"], small, {"i": i, "residual_projection": res})
                    return
    elif op == "interp_surf":
        pts = [[float(x) for x in p] for p in o["pts"]]
        su, sv, pu, pv = o["su"], o["sv"], o["pu"], o["pv"]
        small = {"size_u": su, "size_v": sv, "degree_u": pu, "degree_v": pv, "pts": o["pts"]}
        tg += ["pu=%d" % pu, "pv=%d" % pv, "%dx%d" % (su, sv)]
        ctx.count((op, str(o["pts"]), pu, pv), sample={"op": op, **{k: v for k, v in small.items() if k != "pts"}, "kvu": o["kvu"]})
        def interp_s():
            if c["centr"]:
                return fitting.interpolate_surface([list(x) for x in pts], su, sv, pu, pv, centripetal=True)
            fitting.interpolate_surface([list(x) for x in pts], su, sv, pu, pv, centripetal=True)
            return fitting.interpolate_surface([list(x) for x in pts], su, sv, pu, pv)
        ok, srf = _try(ctx, "fitting.interpolate_surface", tg, small, interp_s)
        if not ok:
            return
        site = "fitting.interpolate_surface"
        if not (close_seq(list(srf.knotvector_u), [float(fr(x)) for x in o["kvu"]], 1e-9) and close_seq(list(srf.knotvector_v), [float(fr(x)) for x in o["kvv"]], 1e-9)):
            ctx.violate(site, tg + ["knot_vector"], small, {"got_u": list(srf.knotvector_u), "got_v": list(srf.knotvector_v)})
            return
        Nu, Nv = mat(o["Nu"]), mat(o["Nv"])
        P = [list(x) for x in srf.ctrlpts]
        uk = [float(fr(x)) for x in o["uk"]]
        vl = [float(fr(x)) for x in o["vl"]]
        for k in range(su):
            for l in range(sv):
                val = [sum(Nu[k][i] * Nv[l][j] * P[j + sv * i][d] for i in range(su) for j in range(sv)) for d in range(3)]
                q = pts[l + sv * k]
                if not vclose(val, q):
                    ctx.violate(site, tg + ["interpolation_condition"], small, {"k": k, "l": l, "sum": val, "Q": q})
                    return
                ev = srf.evaluate_single([uk[k], vl[l]])
                if not vclose(ev, q):
                    ctx.violate(site, tg + ["evaluate_at_param"], small, {"k": k, "l": l, "evaluate_single": ev, "Q": q})
                    return
        # least-squares surface: corner data points are interpolated
        # (control point counts between degree + 2 and number of data points - 1, as the property quantifies)
        if su - 1 >= pu + 2 and sv - 1 >= pv + 2:
            ok, asf = _try(ctx, "fitting.approximate_surface", tg, small,
                           lambda: fitting.approximate_surface([list(x) for x in pts], su, sv, pu, pv, ctrlpts_size_u=su - 1, ctrlpts_size_v=sv - 1, centripetal=c["centr"]))
            if ok:
                AP = [list(x) for x in asf.ctrlpts]
                nu, nv = su - 1, sv - 1
                corners = [(AP[0], pts[0]), (AP[nv - 1], pts[sv - 1]), (AP[nv * (nu - 1)], pts[sv * (su - 1)]), (AP[nv * nu - 1], pts[sv * su - 1])]
                for a, b in corners:
                    if not vclose(a, b):
                        ctx.violate("fitting.approximate_surface", tg + ["corner_points"], small, {"got": a, "expected": b})
        # explicitly chosen, smaller control point counts (still within degree + 2 ... points - 1) per direction: the four corners stay
        for cu, cv in ((su - 1, sv - 2), (su - 2, sv - 1), (su - 2, sv - 2)):
            if not (pu + 2 <= cu <= su - 1 and pv + 2 <= cv <= sv - 1) or (cu, cv) == (su - 1, sv - 1):
                continue
            t3 = tg + ["ctrlpts_size=%dx%d" % (cu, cv)]
            ok, asf = _try(ctx, "fitting.approximate_surface", t3, small,
                           lambda: fitting.approximate_surface([list(x) for x in pts], su, sv, pu, pv, ctrlpts_size_u=cu, ctrlpts_size_v=cv, centripetal=c["centr"]))
            if ok:
                AP = [list(x) for x in asf.ctrlpts]
                if asf.ctrlpts_size_u != cu or asf.ctrlpts_size_v != cv or len(AP) != cu * cv:
                    ctx.violate("fitting.approximate_surface", t3 + ["structure"], small, {"sizes": [asf.ctrlpts_size_u, asf.ctrlpts_size_v]})
                    continue
                for a, b in [(AP[0], pts[0]), (AP[cv - 1], pts[sv - 1]), (AP[cv * (cu - 1)], pts[sv * (su - 1)]), (AP[cv * cu - 1], pts[sv * su - 1])]:
                    if not vclose(a, b):
                        ctx.violate("fitting.approximate_surface", t3 + ["corner_points"], small, {"got": a, "expected": b})
                        break
                        break
    else:
        raise core.MachineryError("unknown op")


THEOREMS = ["T_SW: averaged knots satisfy the Schoenberg-Whitney conditions (collocation matrix non-singular, plain LU exists)",
            "T_Approx: Eq 9.68/9.69 knot vectors are valid and every knot span contains a parameter", "T_Rows: collocation rows sum to one"]


def run(ctx):
    res = core.run_tlc("MC_C11", "MC_C11_%s.cfg" % ctx.tier, timeout=1800)
    core.tlc_must_pass(res, "MC_C11")
    ctx.add_tlc(res, "data sets with rational chord (and centripetal) lengths x degrees x control point counts")
    ctx.theorems = THEOREMS
    ops = {}
    for tag, cs in res.cases:
        ops[cs["out"]["op"]] = ops.get(cs["out"]["op"], 0) + 1
        check_case(ctx, cs)
    if len(ops) < 3:
        raise core.MachineryError("vacuous model: %s" % ops)
    ctx.traces = len(res.cases)
    ctx.extra["cases"] = ops
    ctx.rule = "one case per (data set, parametrisation, degree[, control point count]); all fits run in one interpreter, in model order"
    ctx.assumptions = ["1e-7 relative tolerance (results of LU solves)", "data sets have rational consecutive distances (exact parameters); "
                       "generic data and 9..40 points are outside the exact model"]


def replay(ctx, v):
    check_case(ctx, v["full"])
