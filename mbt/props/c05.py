"""C05 - knot refinement never changes the shape (operations.refine_knotvector for all direction subsets and densities,
helpers.knot_refinement with explicit / additional knot lists)."""
from .. import core
from ..adapter import shape_key
from .c01 import KIND
from . import c04


def check_case(ctx, cs):
    ctx.full = cs
    st = cs["hist"][-1]
    sh0, hist, exp = cs["sh0"], cs["hist"], cs["obj"]
    from .c01 import tags_of
    from ..histories import replay_history
    from ..adapter import project, same_def, build
    from ..core import close_seq, fl, frv
    tg = tags_of(sh0) + ["depth=%d" % len(hist), st["a"]] + (["dens=" + ",".join(map(str, st["dens"]))] if st["a"] == "refine" else [])
    small = {"deg": sh0["deg"], "kv": sh0["kv"], "rat": sh0["rat"], "hist": hist}
    ctx.count(c04.hist_key(cs), sample={"sh0": {k: sh0[k] for k in ("deg", "kv", "size", "rat")}, "hist": hist, "expected_kv": exp["kv"]})
    site = "operations.refine_knotvector" if st["a"] == "refine" else "helpers.knot_refinement"
    try:
        obj, infos = replay_history(sh0, hist, "operations")
    except Exception as e:
        ctx.violate(site, tg + ["raises"], small, {"exception": repr(e)[:300]})
        return
    bad = same_def(project(obj), exp)
    if bad:
        ctx.violate(site, tg, small, {"field": bad, "expected_size": exp["size"], "got_size": list(obj._control_points_size),
                                      "expected_kv": [fl(frv(U)) for U in exp["kv"]], "got_kv": [list(U) for U in obj._knot_vector]})
        return
    # the same history on the shape in a very small and in a very large unit (refinement commutes with uniform scaling)
    for label, conj in (("tiny", 2.0 ** -40), ("huge", 2.0 ** 30), ("tuples_and_ints", None)):
        try:
            o2, _ = replay_history(sh0, hist, "operations", conj=conj, alt_repr=(conj is None))
        except Exception as e:
            ctx.violate(site, tg + ["coordinates=" + label, "raises"], small, {"exception": repr(e)[:300]})
            continue
        bad = same_def(project(o2), exp)
        if bad:
            ctx.violate(site, tg + ["coordinates=" + label], small, {"field": bad})
    try:
        ref = build(sh0)
        pd = len(sh0["deg"])
        for frac in (0.0, 0.3, 0.55, 1.0):
            prm = [frac] * pd
            a = obj.evaluate_single(prm[0] if pd == 1 else prm)
            b = ref.evaluate_single(prm[0] if pd == 1 else prm)
            if not close_seq(a, b, 1e-9):
                ctx.violate(site, tg + ["evaluation"], small, {"param": prm, "before": b, "after": a})
                break
    except Exception as e:
        ctx.violate(site, tg + ["raises", "evaluation"], small, {"exception": repr(e)[:300]})


THEOREMS = ["P_SameShape: [][SameH(obj, obj')]_vars", "P_Structure (every original interval bisected d times, interior knots of multiplicity = degree, "
            "unselected directions untouched)", "T_WellFormed"]


def run(ctx):
    res = core.run_model(ctx, "MC_C05", 3400, thorough_seeds=(2, 3))
    core.tlc_must_pass(res, "MC_C05")
    ctx.add_tlc(res, "exhaustive over initial shapes x refinement calls (histories up to depth 2 for curves)")
    ctx.theorems = THEOREMS
    kinds, acts = {}, {}
    for tag, cs in res.cases:
        k = KIND[len(cs["sh0"]["deg"])]
        kinds[k] = kinds.get(k, 0) + 1
        a = cs["hist"][-1]["a"]
        acts[a] = acts.get(a, 0) + 1
        check_case(ctx, cs)
    if len(kinds) < 3 or len(acts) < 2:
        raise core.MachineryError("vacuous model: kinds=%s acts=%s" % (kinds, acts))
    ctx.traces = len(res.cases)
    ctx.extra.update({"histories_by_kind": kinds, "steps_by_action": acts})
    from .. import tracedrv, repotrace
    repotrace.repo_trace_check(ctx)
    tracedrv.trace_check(ctx, 150 if ctx.tier == "quick" else 1200, 6 if ctx.tier == "quick" else 8)
    ctx.rule = "every reachable state of MC_C05 (initial shape + history of refinement calls) is one case; distinct = distinct (shape, history)"
    ctx.assumptions = ["1e-9 relative tolerance", "clamped, normalised knot vectors"]


def replay(ctx, v):
    if "trace" in v["full"]:
        from .. import tracedrv
        return tracedrv.replay_trace(ctx, v["full"])
    check_case(ctx, v["full"])
