"""C07 - splitting and Bezier decomposition reproduce the original piecewise."""
import copy
from .. import core
from ..core import fr, frv, fl
from ..adapter import build, project, same_def, shape_key
from .c01 import tags_of, KIND, _try


def _proj(piece, mode):
    """definition of a returned piece; in the tiny-range pass its knot vectors are mapped onto [0, 1] first (a piece that needed
    no cut keeps the range of the input)"""
    pg = project(piece)
    if mode == "tiny_range":
        pg["kv"] = [[(k - U[0]) / (U[-1] - U[0]) for k in U] for U in pg["kv"]]
    return pg


def _three_decimals(sh):
    return all((fr(k) * 1000).denominator == 1 for U in sh["kv"] for k in U)


def check_case(ctx, cs, precision=None, binsearch=False, mode=None):
    from geomdl import operations
    from geomdl.exceptions import GeomdlException
    ctx.full = cs
    sh, o = cs["sh"], cs["out"]
    pd = len(sh["deg"])
    tg = tags_of(sh)
    small = {"deg": sh["deg"], "kv": sh["kv"], "rat": sh["rat"]}
    A_ = 2.0 ** -16
    unit_range = all(U[0] == [0, 1] and U[-1] == [1, 1] for U in sh["kv"])
    if mode == "tiny_range":
        # the same shape on the knot range [0, 2^-16] (kept as it is): all distinct knots lie closer than 1.6e-5 to each other (but farther than the 1e-7 at which the library merges knots).  The
        # pieces are re-normalised, so they are the pieces of the normalised shape
        tg = tg + ["knot_range=2^-16"]
        small = dict(small, knot_range="2^-16")
        sh_s = dict(sh, kv=[[[k[0], k[1] * 2 ** 16] for k in U] for U in sh["kv"]])
        ok, obj = _try(ctx, "build", tg, small, lambda: build(sh_s, normalize_kv=False))
        sh = sh_s
    elif mode == "tiny_coords":
        tg = tg + ["coordinates=2^-40"]
        small = dict(small, coordinates="2^-40")

        def mk():
            from geomdl import operations as _o
            ob = build(sh)
            _o.scale(ob, 2.0 ** -40, inplace=True)
            return ob
        ok, obj = _try(ctx, "build", tg, small, mk)
    elif precision is None:
        ok, obj = _try(ctx, "build", tg, small, lambda: build(sh))
    else:
        # the same case on an input created with a coarse ``precision`` option (its own knots are
        # representable, so the option does not alter the input; the pieces are new objects)
        tg = tg + ["precision=%d" % precision]
        small = dict(small, precision=precision)
        ok, obj = _try(ctx, "build", tg, small, lambda: build(sh, precision=precision))
    if not ok:
        return
    kw = {}
    if binsearch:
        # the documented keyword option: the span of the split parameter is found by bisection instead of the linear scan
        from geomdl import helpers
        kw = {"find_span_func": helpers.find_span_binsearch}
        tg = tg + ["find_span_func=binsearch"]
        small = dict(small, find_span_func="binsearch")
    before = copy.deepcopy(project(obj))
    op = o["op"]
    if op in ("split", "split_end"):
        d = o["d"]
        u = float(fr(o["u"])) * (A_ if mode == "tiny_range" else 1.0)
        fn = operations.split_curve if pd == 1 else (operations.split_surface_u if d == 1 else operations.split_surface_v)
        site = "operations." + fn.__name__
        small = dict(small, d=d, u=o["u"])
        ctx.count((op, shape_key(sh), d, tuple(o["u"]), precision, binsearch), sample={"op": op, **small})
        if op == "split_end":
            try:
                fn(obj, u, **kw)
                ctx.violate(site, tg + ["domain_end_not_rejected"], small, {"expected": "GeomdlException"})
            except GeomdlException:
                pass
            except Exception as e:
                ctx.violate(site, tg + ["domain_end", "raises"], small, {"exception": repr(e)[:200]})
        else:
            mult = sum(1 for k in sh["kv"][d - 1] if k == o["u"])
            tg2 = tg + ["dir=" + "uv"[d - 1], "mult=%d" % mult]
            ok, pcs = _try(ctx, site, tg2, small, lambda: fn(obj, u, **kw))
            if ok:
                if len(pcs) != 2:
                    ctx.violate(site, tg2 + ["count"], small, {"expected": 2, "got": len(pcs)})
                else:
                    for i in (0, 1):
                        if mode == "tiny_coords":
                            from geomdl import operations as _o
                            _o.scale(pcs[i], 2.0 ** 40, inplace=True)
                        bad = same_def(_proj(pcs[i], mode), o["pieces"][i])
                        if bad:
                            ctx.violate(site, tg2 + ["piece%d" % (i + 1)], small, {"field": bad, "got_kv": [list(U) for U in pcs[i]._knot_vector],
                                                                                 "expected_kv": [fl(frv(U)) for U in o["pieces"][i]["kv"]]})
            # a coordinate edited in place through the list the getter returns (non-rational surfaces), then a split that needs no
            # insertion (the knot has full multiplicity): the pieces carry the edited coordinate
            if mode is None and precision is None and not binsearch and pd == 2 and not sh["rat"] and mult == sh["deg"][d - 1]:
                def edited_split():
                    ob = build(sh)
                    ob.ctrlpts[0][0] += 1.0
                    return fn(ob, u)
                ok, pcs2 = _try(ctx, site, tg2 + ["coordinate_edited_in_place"], small, edited_split)
                if ok and len(pcs2) == 2:
                    e1 = copy.deepcopy(o["pieces"][0])
                    e1["P"][0][0] = [e1["P"][0][0][0] + e1["P"][0][0][1], e1["P"][0][0][1]]
                    bad = same_def(project(pcs2[0]), e1) or same_def(project(pcs2[1]), o["pieces"][1])
                    if bad:
                        ctx.violate(site, tg2 + ["coordinate_edited_in_place"], small, {"field": bad})
    elif op == "decompose":
        dr = o["dir"]
        site = "operations.decompose_curve" if pd == 1 else "operations.decompose_surface"
        small = dict(small, dir=dr)
        tg2 = tg + ["dir=" + dr]
        ctx.count((op, shape_key(sh), dr, precision, binsearch), sample={"op": op, **small, "pieces": len(o["pieces"])})
        ok, pcs = _try(ctx, site, tg2, small, lambda: operations.decompose_curve(obj, **kw) if pd == 1 else (operations.decompose_surface(obj, **kw) if dr == "uv" else operations.decompose_surface(obj, decompose_dir=dr, **kw)))
        if ok:
            if len(pcs) != len(o["pieces"]):
                ctx.violate(site, tg2 + ["count"], small, {"expected": len(o["pieces"]), "got": len(pcs)})
            else:
                for i, (a, e) in enumerate(zip(pcs, o["pieces"])):
                    if mode == "tiny_coords":
                        from geomdl import operations as _o
                        _o.scale(a, 2.0 ** 40, inplace=True)
                    bad = same_def(_proj(a, mode), e)
                    if bad:
                        ctx.violate(site, tg2 + ["piece"], small, {"piece": i, "field": bad})
                        break
    else:
        raise core.MachineryError("unknown op " + op)
    if mode is not None:
        if project(obj) != before:
            ctx.violate("operations.%s" % op, tg + ["input_modified"], small, {})
        return
    if same_def(project(obj), sh) or project(obj) != before:
        ctx.violate("operations.%s" % op, tg + ["input_modified"], small, {"field": same_def(project(obj), sh)})
    else:
        # ... and neither are the views its getters report (a fresh twin of the same definition is the reference)
        from ..histories import read_view
        tw = build(sh) if precision is None else build(sh, precision=precision)
        for v in ["ctrlpts"] + (["weights", "ctrlptsw"] if sh["rat"] else []) + (["ctrlpts2d"] if pd == 2 else []):
            try:
                a, b = read_view(obj, v), read_view(tw, v)
            except Exception as e:
                ctx.violate("operations.%s" % op, tg + ["input_modified", "view=" + v, "raises"], small, {"exception": repr(e)[:200]})
                break
            if not core.close_seq(a, b):
                ctx.violate("operations.%s" % op, tg + ["input_modified", "view=" + v], small, {"n_reported": len(a), "n_expected": len(b)})
                break


THEOREMS = ["T_Split: both pieces coincide with the original under the affine map of their domain (exact, deg+1 samples per span)",
            "T_Decompose: exactly one Bezier piece per non-empty span (pair), in order, each coinciding with the original on its interval"]


def run(ctx):
    res = core.run_model(ctx, "MC_C07", 3400, thorough_seeds=(2, 3, 5))
    core.tlc_must_pass(res, "MC_C07")
    ctx.add_tlc(res, "exhaustive over shapes x (split parameter | domain end | decomposition direction)")
    ctx.theorems = THEOREMS
    ops = {}
    for tag, cs in res.cases:
        k = cs["out"]["op"] + "/" + KIND[len(cs["sh"]["deg"])]
        ops[k] = ops.get(k, 0) + 1
        check_case(ctx, cs)
        if cs["out"]["op"] != "split_end" and _three_decimals(cs["sh"]):
            ops["precision=3"] = ops.get("precision=3", 0) + 1
            check_case(ctx, cs, precision=3)
        if cs["out"]["op"] != "split_end":
            ops["binsearch"] = ops.get("binsearch", 0) + 1
            check_case(ctx, cs, binsearch=True)
            if all(U[0] == [0, 1] and U[-1] == [1, 1] for U in cs["sh"]["kv"]):
                ops["tiny_range"] = ops.get("tiny_range", 0) + 1
                check_case(ctx, cs, mode="tiny_range")
                check_case(ctx, cs, mode="tiny_coords")
    if len(ops) < 9:
        raise core.MachineryError("vacuous model: %s" % ops)
    ctx.traces = len(res.cases)
    ctx.extra["transitions_by_action"] = ops
    ctx.rule = "one case per (shape, operation, argument); all compare the returned pieces' definitions with the spec's exactly"
    ctx.assumptions = ["1e-9 relative tolerance", "pieces are re-normalised to [0,1] (new objects normalise their knot vectors)"]


def replay(ctx, v):
    check_case(ctx, v["full"], precision=v.get("case", {}).get("precision"), binsearch=v.get("case", {}).get("find_span_func") == "binsearch",
               mode="tiny_range" if "knot_range" in v.get("case", {}) else ("tiny_coords" if "coordinates" in v.get("case", {}) else None))
