"""C08 - degree elevation preserves a Bezier shape, reduction inverts it (helper level and operations.degree_operations on curves)."""
from .. import core
from ..core import fr, frv, fl, close_seq
from ..adapter import build, project, same_def, shape_key
from .c01 import _try


def poly_floats(P):
    return [[float(x) for x in frv(pt)] for pt in P]


SMALL = 2.0 ** -27


def unscale(r):
    try:
        return [[x / SMALL for x in pt] for pt in r]
    except Exception:
        return r


def bezier_curve_roundtrip(ctx, tg, small, P, p, num, exp):
    from geomdl import BSpline, NURBS, operations
    site = "operations.degree_operations"
    W0 = [1.0, 2.0, 0.5, 3.0, 1.0, 2.0, 0.5, 3.0, 1.0, 2.0]
    for rat, W, wl in ((False, W0, ""), (True, W0, "mixed_weights"), (True, [1.0] * 10, "unit_weights"), (True, [2.5] * 10, "equal_weights")):
        t2 = tg + ["bezier_curve", "rational" if rat else "nonrational"] + ([wl] if wl else [])

        def mk():
            c = (NURBS.Curve if rat else BSpline.Curve)()
            c.degree = p
            if rat:
                c.ctrlptsw = [[x * w for x in q] + [w] for q, w in zip(P, W)]
            else:
                c.ctrlpts = [list(q) for q in P]
            c.knotvector = [0.0] * (p + 1) + [1.0] * (p + 1)
            return c
        try:
            c = mk()
            orig = [list(q) for q in c._control_points]
            ref = [c.evaluate_single(t / 8.0) for t in range(9)]
            operations.degree_operations(c, [num])
            kv = [0.0] * (p + num + 1) + [1.0] * (p + num + 1)
            if c.degree != p + num or not close_seq(list(c.knotvector), kv) or len(c._control_points) != p + num + 1:
                ctx.violate(site, t2 + ["structure"], small, {"degree": c.degree, "kv": list(c.knotvector), "n": len(c._control_points)})
                continue
            if not rat and not close_seq([list(q) for q in c.ctrlpts], exp):
                ctx.violate(site, t2 + ["elevated_polygon"], small, {"expected": fl(exp), "got": [list(q) for q in c.ctrlpts]})
                continue
            got = [c.evaluate_single(t / 8.0) for t in range(9)]
            if not close_seq(got, ref, 1e-8):
                ctx.violate(site, t2 + ["same_curve"], small, {"at_1/8": got[1], "expected": ref[1]})
                continue
            if not (close_seq(list(c._control_points[0]), orig[0]) and close_seq(list(c._control_points[-1]), orig[-1])):
                ctx.violate(site, t2 + ["end_points"], small, {"first": list(c._control_points[0]), "last": list(c._control_points[-1])})
                continue
            for _ in range(num):
                operations.degree_operations(c, [-1])
            if c.degree != p or not close_seq([list(q) for q in c._control_points], orig, 1e-8):
                ctx.violate(site, t2 + ["reduce_back"], small, {"degree": c.degree, "got": [list(q) for q in c._control_points][:3], "expected": orig[:3]})
        except Exception as e:
            ctx.violate(site, t2 + ["raises"], small, {"exception": repr(e)[:200]})


def check_case(ctx, cs):
    from geomdl import helpers, operations
    from geomdl.exceptions import GeomdlException
    ctx.full = cs
    c, o = cs["c"], cs["out"]
    op = o["op"]
    if c["kind"] == "poly":
        P = poly_floats(c["P"])
        p = len(P) - 1
        tg = ["p=%d" % p, "dim=%d" % len(P[0])] + (["deg>=5"] if p + (1 if op == "reduce" else 0) >= 5 else [])
        small = {"P": c["P"]}
        if op == "elevate":
            num = o["num"]
            small = dict(small, num=num)
            ctx.count(("elevate", p, len(P[0]), num, str(c["P"][0])), sample={"op": op, **small, "Q": o["Q"]})
            exp = [frv(q) for q in o["Q"]]
            ok, r = _try(ctx, "helpers.degree_elevation", tg, small, lambda: helpers.degree_elevation(p, [list(x) for x in P], num=num))
            if ok and not close_seq(r, exp):
                ctx.violate("helpers.degree_elevation", tg, small, {"expected": fl(exp), "got": r})
            # the same polygon written with Python ints / as tuples, and with one list object used for two (equal) entries
            Pint = [[int(x) if float(x).is_integer() else x for x in pt] for pt in P]
            for label, poly in (("ints", Pint), ("tuples", tuple(tuple(pt) for pt in P))):
                ok, r = _try(ctx, "helpers.degree_elevation", tg + [label], small, lambda: helpers.degree_elevation(p, poly if label == "tuples" else [list(x) for x in poly], num=num))
                if ok and not close_seq([list(x) for x in r], exp):
                    ctx.violate("helpers.degree_elevation", tg + [label], small, {"expected": fl(exp), "got": r})
            # a closed polygon written as pts + pts[:1]: the first and the last entry are ONE list object; the answer is that of the same
            # polygon made of distinct copies (which is bound to the specification by the cases of that degree)
            if p + 1 + num <= 8:
                closed_shared = [list(x) for x in P]
                closed_shared = closed_shared + closed_shared[:1]
                closed_copies = [list(x) for x in P] + [list(P[0])]
                ok, r = _try(ctx, "helpers.degree_elevation", tg + ["shared_point_object"], small, lambda: helpers.degree_elevation(p + 1, closed_shared, num=num))
                ok2, r2 = _try(ctx, "helpers.degree_elevation", tg + ["closed"], small, lambda: helpers.degree_elevation(p + 1, closed_copies, num=num))
                if ok and ok2 and not close_seq([list(x) for x in r], [list(x) for x in r2]):
                    ctx.violate("helpers.degree_elevation", tg + ["shared_point_object"], small, {"with_distinct_copies": r2[:2], "got": r[:2]})
            # both operations are linear: the polygon given in a small unit (factor 2^-27, exact in binary floating point)
            ok, r = _try(ctx, "helpers.degree_elevation", tg + ["unit=2^-27"], small, lambda: helpers.degree_elevation(p, [[x * SMALL for x in pt] for pt in P], num=num))
            if ok and not close_seq(unscale(r), exp):
                ctx.violate("helpers.degree_elevation", tg + ["unit=2^-27"], small, {"expected": fl(exp), "got_rescaled": unscale(r)})
            # the same polygon as a Bezier CURVE object through the curve-level wrapper: elevated polygon, degree and knot vector;
            # reduction (one degree at a time) returns the original; the rational variant carries a weight per point
            bezier_curve_roundtrip(ctx, tg, small, P, p, num, exp)
            # polygon of rows of points (each row: the point twice)
            rows = [[list(x), list(x)] for x in P]
            ok, r = _try(ctx, "helpers.degree_elevation", tg + ["rows_of_points"], small, lambda: helpers.degree_elevation(p, rows, num=num))
            if ok and not close_seq(r, [[e, e] for e in exp]):
                ctx.violate("helpers.degree_elevation", tg + ["rows_of_points"], small, {"got": r})
        elif op == "reduce":
            Q = poly_floats(o["Q"])
            exp = [frv(q) for q in o["P"]]
            ctx.count(("reduce", p, len(P[0]), str(c["P"][0])), sample={"op": op, "Q": o["Q"], "P": o["P"]})
            ok, r = _try(ctx, "helpers.degree_reduction", tg, small, lambda: helpers.degree_reduction(p + 1, [list(x) for x in Q]))
            if ok and not close_seq(r, exp, 1e-8):
                ctx.violate("helpers.degree_reduction", tg, small, {"expected": fl(exp), "got": r})
            Qint = [[int(x) if float(x).is_integer() else x for x in pt] for pt in Q]
            ok, r = _try(ctx, "helpers.degree_reduction", tg + ["ints"], small, lambda: helpers.degree_reduction(p + 1, [list(x) for x in Qint]))
            if ok and not close_seq([list(x) for x in r], exp, 1e-8):
                ctx.violate("helpers.degree_reduction", tg + ["ints"], small, {"expected": fl(exp), "got": r})
            ok, r = _try(ctx, "helpers.degree_reduction", tg + ["unit=2^-27"], small, lambda: helpers.degree_reduction(p + 1, [[x * SMALL for x in pt] for pt in Q]))
            if ok and not close_seq(unscale(r), exp, 1e-8):
                ctx.violate("helpers.degree_reduction", tg + ["unit=2^-27"], small, {"expected": fl(exp), "got_rescaled": unscale(r)})
            rows = [[list(x), list(x)] for x in Q]
            ok, r = _try(ctx, "helpers.degree_reduction", tg + ["rows_of_points"], small, lambda: helpers.degree_reduction(p + 1, rows))
            if ok and not close_seq(r, [[e, e] for e in exp], 1e-8):
                ctx.violate("helpers.degree_reduction", tg + ["rows_of_points"], small, {"got": r})
        elif op == "reject":
            w = o["what"]
            ctx.count(("reject", p, len(P[0]), w), sample={"op": op, "what": w, "p": p})
            calls = {"elevate_nonbezier": lambda: helpers.degree_elevation(p - 1, [list(x) for x in P], num=1),
                     "elevate_num0": lambda: helpers.degree_elevation(p, [list(x) for x in P], num=0),
                     "elevate_negative": lambda: helpers.degree_elevation(p, [list(x) for x in P], num=-1),
                     "reduce_nonbezier": lambda: helpers.degree_reduction(p + 1, [list(x) for x in P]),          # one point too few
                     "reduce_toomany": lambda: helpers.degree_reduction(p - 1, [list(x) for x in P]),            # one point too many (p - 1 >= 2)
                     "elevate_toofew": lambda: helpers.degree_elevation(p + 1, [list(x) for x in P], num=1),
                     "reduce_degree1": lambda: helpers.degree_reduction(1, [list(x) for x in P[:2]])}
            site = "helpers.degree_elevation" if w.startswith("elevate") else "helpers.degree_reduction"
            if w == "reduce_toomany" and p - 1 < 2:
                return
            try:
                calls[w]()
                ctx.violate(site, tg + ["not_rejected", w], small, {"expected": "GeomdlException"})
            except GeomdlException:
                pass
            except Exception as e:
                ctx.violate(site, tg + ["raises", w], small, {"exception": repr(e)[:200]})
    else:
        sh = c["sh"]
        num = o["num"]
        tg = ["curve", "rational" if sh["rat"] else "nonrational", "p=%d" % sh["deg"][0]]
        small = {"deg": sh["deg"], "kv": sh["kv"], "rat": sh["rat"], "num": num}
        ctx.count(("elevate_curve", shape_key(sh), num), sample={"op": op, **small, "expected_kv": o["sh"]["kv"]})
        ok, obj = _try(ctx, "build", tg, small, lambda: build(sh))
        if not ok:
            return
        try:
            operations.degree_operations(obj, [num])
            ok = True
        except Exception as e:
            ok = False
            obs = ctx.extra.setdefault("beyond_property_observations", {"operations.degree_operations differs from ElevateCurve": 0, "example": None})
            obs["operations.degree_operations raised"] = obs.get("operations.degree_operations raised", 0) + 1
        if ok:
            bad = same_def(project(obj), o["sh"], 1e-8)
            if bad:
                # operations.degree_operations is outside the statement of C08 (which is about Bezier polygons at helper level):
                # deviations from the spec's ElevateCurve are recorded as observations, never as violations of C08
                obs = ctx.extra.setdefault("beyond_property_observations", {"operations.degree_operations differs from ElevateCurve": 0, "example": None})
                obs["operations.degree_operations differs from ElevateCurve"] += 1
                if obs["example"] is None:
                    obs["example"] = {"case": small, "field": bad, "got_kv": [list(U) for U in obj._knot_vector],
                                      "expected_kv": [fl(frv(U)) for U in o["sh"]["kv"]]}


THEOREMS = ["T_Elevate: Eq 5.36 preserves the Bezier curve (exact at deg+1 dyadic parameters, degree <= 8 after elevation), end points unchanged",
            "T_Reduce: the Eqs 5.41/5.42 transcription inverts elevation by one for every degree 2..MaxP+1",
            "T_ElevateCurve: piecewise elevation + knot removal yields the same B-spline function with every multiplicity raised by num"]


def run(ctx):
    res = core.run_model(ctx, "MC_C08", 3400, thorough_seeds=(2, 3, 5, 7))
    core.tlc_must_pass(res, "MC_C08")
    ctx.add_tlc(res, "exhaustive over (degree, dimension, homogeneous or not, count)")
    ctx.theorems = THEOREMS
    ops = {}
    for tag, cs in res.cases:
        ops[cs["out"]["op"]] = ops.get(cs["out"]["op"], 0) + 1
        check_case(ctx, cs)
    if len(ops) < 4:
        raise core.MachineryError("vacuous model: %s" % ops)
    ctx.traces = len(res.cases)
    ctx.extra["transitions_by_action"] = ops
    ctx.rule = "one case per (polygon, operation, count) and per (curve, count); every case compares the code's control points with the spec's"
    ctx.assumptions = ["1e-9 (1e-8 reduction / curve elevation) relative tolerance"]


def replay(ctx, v):
    check_case(ctx, v["full"])
