"""C18 - shapes stay inside the hull of their control points: convex-combination certificate (TLC), bounding box, active
control point lookup, clamped end points, curve length bounds."""
import math
from .. import core
from ..core import fr, frv, fl, close, close_seq
from ..adapter import build, shape_key
from .c01 import KIND, _try, tags_of


def check_case(ctx, cs):
    from geomdl import operations
    ctx.full = cs
    sh, o = cs["sh"], cs["out"]
    pd = len(sh["deg"])
    tg = tags_of(sh)
    small = {"deg": sh["deg"], "kv": sh["kv"], "rat": sh["rat"], "size": sh["size"]}
    ok, obj = _try(ctx, "build", tg, small, lambda: build(sh))
    if not ok:
        return
    if o["op"] == "hull":
        prm = [float(x) for x in frv(o["prm"])]
        small = dict(small, prm=o["prm"])
        ctx.count(("hull", shape_key(sh), tuple(map(tuple, o["prm"]))), sample={"op": "hull", **small, "cert": o["cert"][:3]})
        lo, hi = frv(o["bbox"][0]), frv(o["bbox"][1])
        if sh["rat"]:
            # the same definition with a weight corrected by get / edit / set: same box, same point
            def eb():
                ob = build(sh, edit_back=True)
                return [list(x) for x in ob.bbox], ob.evaluate_single(prm[0] if pd == 1 else prm), [list(q) for q in ob.ctrlpts]
            ok, r_ = _try(ctx, "abstract.bbox", tg + ["weights_corrected_by_edit_back"], small, eb)
            if ok and not (close_seq(r_[0][0], lo) and close_seq(r_[0][1], hi) and close_seq(r_[1], frv(o["pt"]))):
                ctx.violate("evaluate_single", tg + ["weights_corrected_by_edit_back"], small, {"bbox": r_[0], "point": r_[1]})
            # a translated COPY is made and its views are read first: the original keeps reporting its own box
            def fork():
                cp = operations.translate(obj, [100.0] * obj.dimension)
                return [list(p) for p in cp.ctrlpts], [list(x) for x in cp.bbox]
            ok, fk = _try(ctx, "operations.translate", tg + ["fork"], small, fork)
            if ok and not (close_seq(fk[1][0], [x + 100 for x in lo]) and close_seq(fk[1][1], [x + 100 for x in hi])):
                ctx.violate("abstract.bbox", tg + ["translated_copy"], small, {"expected_min": fl([x + 100 for x in lo]), "got": fk[1]})
        ok, bb = _try(ctx, "abstract.bbox", tg, small, lambda: obj.bbox)
        if ok and not (close_seq(list(bb[0]), lo) and close_seq(list(bb[1]), hi)):
            ctx.violate("abstract.bbox", tg, small, {"expected": [fl(lo), fl(hi)], "got": [list(bb[0]), list(bb[1])]})
        ok, pt = _try(ctx, "evaluate_single", tg, small, lambda: obj.evaluate_single(prm[0] if pd == 1 else prm))
        if ok and bb is not None:
            if any(x < a - 1e-9 or x > b + 1e-9 for x, a, b in zip(pt, bb[0], bb[1])):
                ctx.violate("evaluate_single", tg + ["outside_bbox"], small, {"point": pt, "bbox": [list(bb[0]), list(bb[1])]})
            # hull certificate with the code's own control points: point = sum lambda_i * ctrlpts[i]
            C = obj.ctrlpts
            acc = [0.0] * len(pt)
            for term in o["cert"]:
                lam = float(fr(term["lam"]))
                acc = [a + lam * c for a, c in zip(acc, C[term["i"] - 1])]
            if not close_seq(pt, acc, 1e-9):
                ctx.violate("evaluate_single", tg + ["hull_certificate"], small, {"point": pt, "combination_of_active_ctrlpts": acc})
        if pd <= 2:
            ok, r = _try(ctx, "operations.find_ctrlpts", tg, small, lambda: operations.find_ctrlpts(obj, *prm))
            if ok:
                got = [list(p) for p in r] if pd == 1 else [list(p) for row in r for p in row]
                idxs = [t["i"] - 1 for t in o["cert"]]       # tensor order: u outermost, then v
                un = [list(obj.ctrlpts[i]) for i in idxs]
                wt = [list(obj.ctrlptsw[i]) for i in idxs] if sh["rat"] else un
                if not (close_seq(got, un) or close_seq(got, wt)):
                    ctx.violate("operations.find_ctrlpts", tg, small, {"expected_indices": idxs, "got": got[:4]})
    elif o["op"] == "length":
        ctx.count(("length", shape_key(sh)), sample={"op": "length", **small, "chord2": o["chord2"]})
        chord = math.sqrt(float(fr(o["chord2"])))
        poly = sum(math.sqrt(float(fr(x))) for x in o["poly2"])
        for n in (2, 5, 23):
            def ln():
                obj.sample_size = n
                return operations.length_curve(obj)
            ok, L = _try(ctx, "operations.length_curve", tg, small, ln)
            if ok and not (chord - 1e-9 <= L <= poly + 1e-9):
                ctx.violate("operations.length_curve", tg + ["sample_size=%d" % n], small, {"chord": chord, "length": L, "polygon": poly})
        if o["clamped"]:
            pts = obj.evalpts
            if not (close_seq(pts[0], obj.ctrlpts[0]) and close_seq(pts[-1], obj.ctrlpts[-1])):
                ctx.violate("evalpts", tg + ["clamped_ends"], small, {"first": pts[0], "last": pts[-1]})
        # the same curve in a very small and a very large unit: the bounds scale with it
        for s_ in (2.0 ** -30, 2.0 ** 30):
            def scaled_len():
                ob = build(sh)
                operations.scale(ob, s_, inplace=True)
                ob.sample_size = 23
                return operations.length_curve(ob)
            ok, L = _try(ctx, "operations.length_curve", tg + ["scaled"], small, scaled_len)
            if ok and not (chord - 1e-9 <= L / s_ <= poly + 1e-9):
                ctx.violate("operations.length_curve", tg + ["scaled"], small, {"scale": s_, "chord": chord * s_, "length": L, "polygon": poly * s_})
        # the control points are replaced AFTER the curve has been sampled: sampled points, ends and length follow the new polygon
        def moved():
            ob = build(sh)
            ob.sample_size = 7
            _ = ob.evalpts, operations.length_curve(ob)
            ob.ctrlpts = [[x + 50.0 for x in q] for q in ob.ctrlpts]
            return [list(x) for x in ob.evalpts], [list(x) for x in ob.bbox], [list(x) for x in ob.ctrlpts], operations.length_curve(ob)
        ok, r = _try(ctx, "evalpts", tg + ["ctrlpts_replaced_after_sampling"], small, moved)
        if ok:
            pts, bb, cps, L = r
            if any(x < a - 1e-9 or x > b + 1e-9 for q in pts for x, a, b in zip(q, bb[0], bb[1])):
                ctx.violate("evalpts", tg + ["ctrlpts_replaced_after_sampling", "outside_bbox"], small, {"bbox": bb, "first": pts[0]})
            elif o["clamped"] and not (close_seq(pts[0], cps[0]) and close_seq(pts[-1], cps[-1])):
                ctx.violate("evalpts", tg + ["ctrlpts_replaced_after_sampling", "clamped_ends"], small, {"first": pts[0], "first_ctrlpt": cps[0]})
            elif not (chord - 1e-9 <= L <= poly + 1e-9):
                ctx.violate("operations.length_curve", tg + ["ctrlpts_replaced_after_sampling"], small, {"chord": chord, "length": L, "polygon": poly})
        # sampled points of objects created with a coarse ``precision`` option, at sample sizes whose step is not a terminating decimal
        for prec in (6, 3):
            if not all((fr(k) * 10 ** prec).denominator == 1 for k in sh["kv"][0]):
                continue
            for n in (4, 7, 10):
                t2 = tg + ["precision=%d" % prec, "sample_size=%d" % n]
                def sampled():
                    ob = build(sh, precision=prec)
                    ob.sample_size = n
                    return [list(x) for x in ob.evalpts], [list(x) for x in ob.bbox], [list(x) for x in ob.ctrlpts]
                ok, r = _try(ctx, "evalpts", t2, small, sampled)
                if not ok:
                    continue
                pts, bb, cps = r
                if len(pts) != n:
                    ctx.violate("evalpts", t2 + ["count"], small, {"expected": n, "got": len(pts)})
                elif any(x < a - 1e-9 or x > b + 1e-9 for p in pts for x, a, b in zip(p, bb[0], bb[1])):
                    ctx.violate("evalpts", t2 + ["outside_bbox"], small, {"bbox": bb, "last": pts[-1]})
                elif o["clamped"] and not (close_seq(pts[0], cps[0]) and close_seq(pts[-1], cps[-1])):
                    ctx.violate("evalpts", t2 + ["clamped_ends"], small, {"first": pts[0], "last": pts[-1], "last_ctrlpt": cps[-1]})
    elif o["op"] == "ends":
        ctx.count(("ends", shape_key(sh)), sample={"op": "ends", **small, "last": o["last"]})
        first, last = fl(frv(o["first"])), fl(frv(o["last"]))
        lo, hi = fl(frv(o["bbox"][0])), fl(frv(o["bbox"][1]))
        for ns in ((2, 3, 2), (4, 3, 3)):
            t2 = tg + ["sample_size=" + "x".join(map(str, ns[:pd]))]

            def sampled():
                ob = build(sh)
                for nm, n in zip("uvw"[:pd], ns):
                    setattr(ob, "sample_size_" + nm, n)
                return [list(x) for x in ob.evalpts]
            ok, pts = _try(ctx, "evalpts", t2, small, sampled)
            if not ok:
                continue
            want = 1
            for n in ns[:pd]:
                want *= n
            if len(pts) != want:
                ctx.violate("evalpts", t2 + ["count"], small, {"expected": want, "got": len(pts)})
            elif not (close_seq(pts[0], first) and close_seq(pts[-1], last)):
                ctx.violate("evalpts", t2 + ["clamped_ends"], small, {"first": pts[0], "last": pts[-1], "first_ctrlpt": first, "last_ctrlpt": last})
            elif any(x < a - 1e-9 or x > b + 1e-9 for q in pts for x, a, b in zip(q, lo, hi)):
                ctx.violate("evalpts", t2 + ["outside_bbox"], small, {"bbox": [lo, hi]})
    else:
        raise core.MachineryError("unknown op")


THEOREMS = ["T_Hull: every point is a convex combination (lambda >= 0, sum 1) of exactly the active control points, lambda_i = N_i w_i / sum N_j w_j",
            "T_InBBox: every point lies in the bounding box of the control net"]


def run(ctx):
    res = core.run_model(ctx, "MC_C18", 1800, thorough_seeds=(2, 3, 5, 7))
    core.tlc_must_pass(res, "MC_C18")
    ctx.add_tlc(res, "every shape x parameter: exact convex-combination certificate")
    ctx.theorems = THEOREMS
    ops = {}
    for tag, cs in res.cases:
        k = cs["out"]["op"] + "/" + KIND[len(cs["sh"]["deg"])]
        ops[k] = ops.get(k, 0) + 1
        check_case(ctx, cs)
    if len(ops) < 4:
        raise core.MachineryError("vacuous model: %s" % ops)
    ctx.traces = len(res.cases)
    ctx.extra["cases"] = ops
    ctx.rule = "one case per (shape, parameter) and per curve (length bounds)"
    ctx.assumptions = ["square roots (lengths) are taken by the adapter in floating point", "find_ctrlpts may return weighted or unweighted points"]


def replay(ctx, v):
    check_case(ctx, v["full"])
