"""C14 - export followed by import reproduces the geometry; files use the documented row/column ordering.
The spec gives the abstract content of every file; the replay exports with geomdl, tokenises the real file and compares it
with the abstract file, then imports with geomdl and compares the definition."""
import json, os, shutil, tempfile
from .. import core
from ..core import fr, frv, fl, close_seq
from ..adapter import build, shape_key
from .c01 import KIND, _try, tags_of


def F(x):
    """nested rationals -> floats"""
    if isinstance(x, list) and len(x) == 2 and all(isinstance(t, int) for t in x):
        return x[0] / x[1]
    return [F(t) for t in x]


def container(kind, objs):
    from geomdl import multi
    if len(objs) == 1:
        return objs[0]
    C = {"curve": multi.CurveContainer, "surface": multi.SurfaceContainer, "volume": multi.VolumeContainer}[kind]
    c = C()
    c.add(objs)
    return c


def imported_matches(ctx, site, tg, small, got, imp):
    if len(got) != len(imp):
        ctx.violate(site, tg + ["count"], small, {"expected": len(imp), "got": len(got)})
        return
    for i, (g, e) in enumerate(zip(got, imp)):
        pd = len(e["deg"])
        deg = [g.degree] if pd == 1 else list(g.degree)
        size = [g.ctrlpts_size] if pd == 1 else list(g.cpsize)
        kv = [list(g.knotvector)] if pd == 1 else [list(U) for U in g.knotvector]
        bad = None
        if deg != e["deg"]:
            bad = "degree"
        elif size != e["size"]:
            bad = "size"
        elif not close_seq(kv, F(e["kv"]), 1e-9):
            bad = "knotvector"
        elif not close_seq([list(p) for p in g.ctrlpts], F(e["points"]), 1e-9):
            bad = "control_points"
        elif not close_seq(list(g.weights) if g.rational else [1.0] * len(e["weights"]), F(e["weights"]), 1e-9):
            bad = "weights"
        if bad:
            ctx.violate(site, tg + ["shape%d" % i, bad], small, {"field": bad, "got_size": size, "expected_size": e["size"]})
            return


def check_case(ctx, cs, edit_back=False):
    from geomdl import exchange
    ctx.full = cs
    c, o = cs["c"], cs["out"]
    kind, shapes = c["kind"], c["shapes"]
    op = o["op"]
    tg = [kind, op, "n=%d" % len(shapes)] + (["rational"] if any(s["rat"] for s in shapes) else ["nonrational"]) + \
         ["sizes=" + "x".join(map(str, shapes[0]["size"]))]
    small = {"kind": kind, "op": op, "deg": [s["deg"] for s in shapes], "size": [s["size"] for s in shapes], "rat": [s["rat"] for s in shapes]}
    ctx.count((op, kind, core.json.dumps(shapes, sort_keys=True)), sample=small)
    d = tempfile.mkdtemp(prefix="verif_c14_")
    try:
        objs = [build(s, edit_back=edit_back) for s in shapes]
        def samp(k, pd):           # per-direction sampling (u and w equal, v different): the density travels with JSON
            return [3 + k] if pd == 1 else ([3 + k, 5 + k] if pd == 2 else [3 + k, 5 + k, 3 + k])
        for k, ob in enumerate(objs):
            ss = samp(k, ob.pdimension)
            if ob.pdimension == 1:
                ob.sample_size = ss[0]
            elif ob.pdimension == 2:
                ob.sample_size_u, ob.sample_size_v = ss
            else:
                ob.sample_size_u, ob.sample_size_v, ob.sample_size_w = ss
        tgt = container(kind, objs)
        if op == "json":
            fn = os.path.join(d, "x.json")
            ok, _ = _try(ctx, "exchange.export_json", tg, small, lambda: exchange.export_json(tgt, fn))
            if not ok:
                return
            data = json.load(open(fn))["shape"]
            exp = o["file"]
            if data["type"] != kind or data["count"] != len(exp) or len(data["data"]) != len(exp):
                ctx.violate("exchange.export_json", tg + ["header"], small, {"type": data["type"], "count": data["count"]})
                return
            for i, (dd, e) in enumerate(zip(data["data"], exp)):
                pd = len(e["deg"])
                sfx = [""] if pd == 1 else ["_u", "_v", "_w"][:pd]
                got_deg = [dd["degree" + x] for x in sfx]
                got_kv = [dd["knotvector" + x] for x in sfx]
                got_size = [len(dd["control_points"]["points"])] if pd == 1 else [dd["size" + x] for x in sfx]
                bad = None
                if got_deg != e["deg"] or got_size != e["size"] or bool(dd["rational"]) != e["rational"]:
                    bad = "structure"
                elif not close_seq(got_kv, F(e["kv"]), 1e-12):
                    bad = "knotvector"
                elif not close_seq(dd["control_points"]["points"], F(e["points"]), 1e-12):
                    bad = "points"
                elif e["rational"] and not close_seq(dd["control_points"].get("weights"), F(e["weights"]), 1e-12):
                    bad = "weights"
                if bad:
                    ctx.violate("exchange.export_json", tg + ["shape%d" % i, bad], small, {"field": bad})
                    return
            ok, got = _try(ctx, "exchange.import_json", tg, small, lambda: exchange.import_json(fn))
            if ok:
                imported_matches(ctx, "exchange.import_json", tg, small, got, o["imp"])
            # the same file written by another program: the optional "count" entry left out, the keys in another order, other
            # indentation - every shape is read
            def rewritten():
                doc = json.load(open(fn))

                def rev(x):
                    if isinstance(x, dict):
                        return {k: rev(x[k]) for k in reversed(list(x.keys())) if k != "count"}
                    if isinstance(x, list):
                        return [rev(t) for t in x]
                    return x
                fn_b = os.path.join(d, "x_rewritten.json")
                with open(fn_b, "w") as fb:
                    fb.write(json.dumps(rev(doc), indent=1) + "\n\n")
                return exchange.import_json(fn_b)
            ok, got = _try(ctx, "exchange.import_json", tg + ["rewritten_file"], small, rewritten)
            if ok:
                imported_matches(ctx, "exchange.import_json", tg + ["rewritten_file"], small, got, o["imp"])
                # sampling density round trip
                for k, g in enumerate(got):
                    ss = g.sample_size
                    ss = [ss] if isinstance(ss, int) else list(ss)
                    if ss != samp(k, g.pdimension):
                        ctx.violate("exchange.import_json", tg + ["delta"], small, {"expected_sample_size": samp(k, g.pdimension), "got": ss})
                        break
        elif op in ("smesh", "vmesh"):
            fn = os.path.join(d, "mesh.txt")
            exporter = exchange.export_smesh if op == "smesh" else exchange.export_vmesh
            importer = exchange.import_smesh if op == "smesh" else exchange.import_vmesh
            ok, _ = _try(ctx, "exchange.export_" + op, tg, small, lambda: exporter(tgt, fn))
            if not ok:
                return
            files = [fn] if len(shapes) == 1 else [os.path.join(d, "mesh.%d.txt" % (k + 1)) for k in range(len(shapes))]
            for i, (path, e) in enumerate(zip(files, o["file"])):
                if not os.path.exists(path):
                    ctx.violate("exchange.export_" + op, tg + ["missing_file"], small, {"path": os.path.basename(path)})
                    return
                rows = [l.split() for l in open(path).read().strip().split("\n")]
                pd = len(e["deg"])
                bad = None
                if int(rows[0][0]) != e["dim"] or [int(x) for x in rows[1]] != e["deg"] or [int(x) for x in rows[2]] != e["size"]:
                    bad = "header"
                elif not close_seq([[float(x) for x in r] for r in rows[3:3 + pd]], F(e["kv"]), 1e-12):
                    bad = "knotvector"
                else:
                    n = len(e["rows"])
                    got_rows = [[float(x) for x in r] for r in rows[3 + pd:3 + pd + n]]
                    if not close_seq(got_rows, F(e["rows"]), 1e-12):
                        bad = "control_point_rows"
                if bad:
                    ctx.violate("exchange.export_" + op, tg + ["shape%d" % i, bad], small, {"field": bad})
                    return
            def imp_all():
                if len(files) == 1:
                    return importer(files[0])
                return [importer(p)[0] for p in files]
            ok, got = _try(ctx, "exchange.import_" + op, tg, small, imp_all)
            if ok:
                imported_matches(ctx, "exchange.import_" + op, tg, small, got, o["imp"])
        elif op == "text":
            ob = objs[0]
            pd = len(shapes[0]["deg"])
            fn = os.path.join(d, "p.txt")
            ok, _ = _try(ctx, "exchange.export_txt", tg, small, lambda: exchange.export_txt(ob, fn))
            if ok:
                ok, r = _try(ctx, "exchange.import_txt", tg, small, lambda: exchange.import_txt(fn))
                raw = [[float(x) for x in l.split(",")] for l in open(fn).read().strip().split("\n")]
                if not close_seq(raw, F(o["txt"]), 1e-12):
                    ctx.violate("exchange.export_txt", tg, small, {"got0": raw[0]})
                elif ok and not close_seq(r, F(o["txt"]), 1e-12):
                    ctx.violate("exchange.import_txt", tg, small, {"got0": r[0]})
            if pd == 2:
                fn2 = os.path.join(d, "p2.txt")
                ok, _ = _try(ctx, "exchange.export_txt", tg + ["two_dimensional"], small, lambda: exchange.export_txt(ob, fn2, two_dimensional=True))
                if ok:
                    grid = [[[float(x) for x in cell.split(",")] for cell in l.split(";")] for l in open(fn2).read().strip().split("\n")]
                    if not close_seq(grid, F(o["txt2d"]), 1e-12):
                        ctx.violate("exchange.export_txt", tg + ["two_dimensional"], small, {"rows": len(grid), "cols": len(grid[0])})
                    ok, r = _try(ctx, "exchange.import_txt", tg + ["two_dimensional"], small, lambda: exchange.import_txt(fn2, two_dimensional=True))
                    if ok:
                        pts, su, sv = r
                        if [su, sv] != shapes[0]["size"] or not close_seq(pts, F(o["txt"]), 1e-12):
                            ctx.violate("exchange.import_txt", tg + ["two_dimensional"], small, {"sizes": [su, sv]})
                    # the same file with an empty line before and after the rows and trailing blanks on a row
                    def padded():
                        fn2b = os.path.join(d, "p2_padded.txt")
                        rows = open(fn2).read().strip().split("\n")
                        with open(fn2b, "w") as fb:
                            fb.write("\n" + "\n".join(rows[:1] + [rows_ + "  " for rows_ in rows[1:]]) + "\n\n")
                        return exchange.import_txt(fn2b, two_dimensional=True)
                    ok, r = _try(ctx, "exchange.import_txt", tg + ["two_dimensional", "blank_lines"], small, padded)
                    if ok:
                        pts, su, sv = r
                        if [su, sv] != shapes[0]["size"] or not close_seq(pts, F(o["txt"]), 1e-12):
                            ctx.violate("exchange.import_txt", tg + ["two_dimensional", "blank_lines"], small, {"sizes": [su, sv], "expected": shapes[0]["size"]})
            fn3 = os.path.join(d, "p.csv")
            ok, _ = _try(ctx, "exchange.export_csv", tg, small, lambda: exchange.export_csv(ob, fn3, point_type="ctrlpts"))
            if ok:
                ok, r = _try(ctx, "exchange.import_csv", tg, small, lambda: exchange.import_csv(fn3))
                if ok and not close_seq(r, F(o["csv"]), 1e-12):
                    ctx.violate("exchange.import_csv", tg, small, {"got0": r[0] if r else r})
        else:
            raise core.MachineryError("unknown op " + op)
    finally:
        shutil.rmtree(d, ignore_errors=True)


THEOREMS = ["T_MeshRoundTrip: the u-row ordered rows of a smesh / vmesh file determine the flat (v fastest) control net"]


def run(ctx):
    res = core.run_model(ctx, "MC_C14", 1200, thorough_seeds=(2, 3, 5, 7))
    core.tlc_must_pass(res, "MC_C14")
    ctx.add_tlc(res, "shapes with pairwise different sizes and containers x formats")
    ctx.theorems = THEOREMS
    ops = {}
    for tag, cs in res.cases:
        k = cs["out"]["op"] + "/" + cs["c"]["kind"]
        ops[k] = ops.get(k, 0) + 1
        check_case(ctx, cs)
        if any(s_["rat"] for s_ in cs["c"]["shapes"]):
            check_case(ctx, cs, edit_back=True)       # the same files from objects whose weights were corrected by get / edit / set
    if len(ops) < 7:
        raise core.MachineryError("vacuous model: %s" % ops)
    check_trims(ctx)
    ctx.traces = len(res.cases)
    ctx.extra["cases"] = ops
    ctx.rule = "one case per (shape or container, format): abstract file vs tokenised real file, then import vs definition"
    ctx.assumptions = ["default 18 printed decimals; comparison at 1e-12 (files) and 1e-9 (re-imported definitions)"]


def check_trims(ctx):
    """JSON carries trim curves (spline, freeform, container): export/import keeps them"""
    from geomdl import exchange, BSpline, freeform, multi
    d = tempfile.mkdtemp(prefix="verif_c14t_")
    tg = ["surface", "json", "trims"]
    small = {"trims": ["spline", "freeform", "container"]}
    ctx.count(("json_trims",), sample=small)
    try:
        from .c15 import SURFS
        s = build(SURFS[0])
        t1 = BSpline.Curve()
        t1.degree = 1
        t1.ctrlpts = [[0.25, 0.25], [0.75, 0.25], [0.75, 0.75], [0.25, 0.25]]
        t1.knotvector = [0, 0, 1.0 / 3, 2.0 / 3, 1, 1]
        t1.opt = ["reversed", 1]
        t2 = freeform.Freeform()
        # (a sampled polyline may repeat a point: the doubled vertex and the doubled start travel with the file)
        t2.evaluate(points=[[0.1, 0.1], [0.1, 0.1], [0.2, 0.1], [0.2, 0.2], [0.2, 0.2], [0.1, 0.1]])
        t3 = multi.CurveContainer()
        a = BSpline.Curve(); a.degree = 1; a.ctrlpts = [[0.6, 0.6], [0.9, 0.6]]; a.knotvector = [0, 0, 1, 1]
        b = BSpline.Curve(); b.degree = 1; b.ctrlpts = [[0.9, 0.6], [0.6, 0.6]]; b.knotvector = [0, 0, 1, 1]
        t3.add([a, b])
        t4 = multi.CurveContainer()
        a4 = BSpline.Curve(); a4.degree = 1; a4.ctrlpts = [[0.1, 0.8], [0.3, 0.8]]; a4.knotvector = [0, 0, 1, 1]
        b4 = BSpline.Curve(); b4.degree = 1; b4.ctrlpts = [[0.3, 0.8], [0.1, 0.8]]; b4.knotvector = [0, 0, 1, 1]
        t4.add([a4, b4])
        a4.sample_size, b4.sample_size = 7, 9          # (sampling of the members of a container trim travels with the file)
        s.trims = [t1, t2, t3, t4]
        fn = os.path.join(d, "t.json")
        exchange.export_json(s, fn)
        exchange.import_json(fn)                       # a first import in the same interpreter
        g = exchange.import_json(fn)[0]
        tr = g.trims
        ok = (len(tr) == 4 and len(tr[3]) == 2 and close_seq([list(p) for p in tr[3][0].ctrlpts], a4.ctrlpts, 1e-12) and tr[0].type == "spline" and close_seq([list(p) for p in tr[0].ctrlpts], t1.ctrlpts, 1e-12)
              and close_seq(list(tr[0].knotvector), list(t1.knotvector), 1e-12) and tr[0].opt_get("reversed") == 1
              and close_seq([list(p) for p in tr[1].evalpts], [list(p) for p in t2.evalpts], 1e-12)
              and len(tr[2]) == 2 and close_seq([list(p) for p in tr[2][1].ctrlpts], b.ctrlpts, 1e-12))
        if not ok:
            ctx.violate("exchange.import_json", tg, small, {"n_trims": len(tr)})
        elif (a4.sample_size, b4.sample_size) != (7, 9) or (tr[3][0].sample_size, tr[3][1].sample_size) != (7, 9):
            ctx.violate("exchange.export_json", tg + ["member_sampling"], small, {"original_after_export": [a4.sample_size, b4.sample_size], "imported": [tr[3][0].sample_size, tr[3][1].sample_size]})
        # a container that holds the same patch twice (a shape and its deep copy): both are written and read back
        import copy as _copy
        for fmt, exp_fn, imp_fn in (("json", exchange.export_json, exchange.import_json),):
            c2 = multi.SurfaceContainer()
            s1 = build(SURFS[1])
            c2.add(s1)
            c2.add(_copy.deepcopy(s1))
            fn2 = os.path.join(d, "twice." + fmt)
            exp_fn(c2, fn2)
            got2 = imp_fn(fn2)
            if len(c2) != 2 or len(got2) != 2:
                ctx.violate("multi.SurfaceContainer.add", tg + ["equal_shapes"], small, {"in_container": len(c2), "imported": len(got2)})
    except Exception as e:
        ctx.violate("exchange.export_json", tg + ["raises"], small, {"exception": repr(e)[:300]})
    finally:
        shutil.rmtree(d, ignore_errors=True)


def replay(ctx, v):
    check_case(ctx, v["full"])
