"""Third trace source: the repository's own test-suite run under wrappers (mbt/pytest_trace_plugin.py).  Every recorded
insert / remove / refine call becomes a one-event trace (initial state = the projected definition before the call) that TLC
validates against the specification (non-strict: removals of knots that are not exactly removable are checked structurally)."""
import os
import json, os, subprocess, sys, tempfile, shutil
from fractions import Fraction
from . import core, tracedrv
from .core import snap


def record():
    d = tempfile.mkdtemp(prefix="verif_repotrace_")
    out = os.path.join(d, "events.json")
    env = dict(os.environ, GEOMDL_VERIF_TRACE=out, PYTHONPATH=core.REPO + os.pathsep + core.VERIF, PYTHONHASHSEED="0")
    # the tests live in /repo/tests; geomdl is imported from VERIF_REPO (the tree under verification)
    p = subprocess.run([sys.executable, "-m", "pytest", "-q", "-p", "no:cacheprovider", "-p", "mbt.pytest_trace_plugin", "--timeout=900",
                        "--continue-on-collection-errors", "--ignore=tests/test_visualization.py", "-x", "/repo/tests"],
                       cwd="/repo", env=env, capture_output=True, text=True, timeout=900)
    ev = []
    if os.path.exists(out):
        ev = json.load(open(out))
    shutil.rmtree(d, ignore_errors=True)
    return ev, p.stdout[-400:]


def _clean(sh):
    return sh is not None and all(x != [0, 0] for U in sh["kv"] for x in U) and all(x != [0, 0] for p in sh["P"] for x in p)


def to_traces(events):
    traces, skipped = [], 0
    for i, e in enumerate(events):
        if not _clean(e["pre"]) or e["post"] is None:
            skipped += 1
            continue
        ev = {"a": e["a"], "post": e["post"]}
        pd = len(e["pre"]["deg"])
        if e["a"] == "insert":
            ev["prm"] = [[] if (p is None or n == 0) else snap(p) for p, n in zip(e["prm"], e["num"])]
            ev["num"] = [0 if p is None else n for p, n in zip(e["prm"], e["num"])]
            ev["rejected"] = e["raised"] is not None
            if any(p == [0, 0] for p in ev["prm"]):
                skipped += 1
                continue
        elif e["a"] == "remove":
            dirs = [d for d in range(pd) if e["prm"][d] is not None and e["num"][d] > 0]
            if len(dirs) != 1 or e["raised"]:
                skipped += 1
                continue
            d = dirs[0]
            ev.update(d=d + 1, u=snap(e["prm"][d]), r=e["num"][d])
        elif e["a"] == "refine":
            ev["dens"] = list(e["dens"])
            if e["raised"]:
                skipped += 1
                continue
        traces.append({"id": i + 1, "init": e["pre"], "ev": [ev], "strict": False, "error": None, "test": e.get("test", "")})
    return traces, skipped


def validate_each(traces):
    """batch validation; if the exact recomputation of some event overflows TLC's integers, fall back to one run per trace
    and count the overflowing ones as not validated"""
    acc, mism, res = tracedrv.validate(traces, timeout=900)
    if not res.error or mism:
        return acc, mism, [], [res]
    acc, mism, over, results = set(), {}, [], []
    for t in traces:
        a, m, r = tracedrv.validate([t], timeout=300)
        results.append(r)
        if r.error and not m:
            over.append(t["id"])
        acc |= a
        mism.update(m)
    return acc, mism, over, results


def repo_trace_check(ctx):
    if os.environ.get("VERIF_SKIP_TRACE") == "1":      # diagnostic campaigns only
        return
    events, tail = record()
    if not events:
        raise core.MachineryError("no events recorded from the repository's tests: %s" % tail)
    traces, skipped = to_traces(events)
    acc, mism, over, results = validate_each(traces)
    for r in results[:1]:
        ctx.add_tlc(r, "trace validation of the repository's own tests (one-event traces, non-strict removal)")
    mine = 0
    for t in traces:
        if t["id"] in acc or t["id"] in over:
            continue
        ev = t["ev"][0]
        if tracedrv.ACTION_PROPERTY.get(ev["a"]) != ctx.prop:
            continue
        m = mism.get(t["id"])
        if m is None:
            raise core.MachineryError("repo trace %d neither accepted nor explained" % t["id"])
        mine += 1
        ctx.full = {"trace": {k: v for k, v in t.items() if k != "error"}}
        ctx.violate(tracedrv.ACTION_SITE[ev["a"]], ["trace", "repo_test"], {"test": t["test"], "event": {k: v for k, v in ev.items() if k != "post"}},
                    {"first_differing_field": tracedrv._first_diff(m["expected"], ev["post"]) if m["consistent"] else "enabling condition / rejection flag"})
    ctx.traces += len(acc)
    ctx.extra["repo_test_traces"] = {"events_recorded": len(events), "validated": len(acc), "skipped_unsnappable_or_multi": skipped,
                                     "overflow_not_validated": len(over), "rejected_for_this_property": mine}
