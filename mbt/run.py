"""Entry point: python -m mbt.run <ID> [--tier quick|thorough] [--replay path]"""
import argparse, importlib, json, os, sys, traceback
from . import core


def main():
    ap = argparse.ArgumentParser()
    ap.add_argument("prop")
    ap.add_argument("--tier", default=os.environ.get("VERIF_TIER", "quick"), choices=["quick", "thorough"])
    ap.add_argument("--replay", default=None)
    a = ap.parse_args()
    seed = int(os.environ.get("VERIF_SEED", "20261002"))
    prop = a.prop.upper()
    try:
        mod = importlib.import_module("mbt.props." + prop.lower())
    except ImportError as e:
        print("machinery error: no check module for %s (%s)" % (prop, e))
        sys.exit(2)
    ctx = core.Ctx(prop, a.tier, seed, replay=a.replay)
    try:
        if a.replay:
            with open(a.replay) as f:
                v = json.load(f)
            mod.replay(ctx, v)
        else:
            mod.run(ctx)
            if os.environ.get("VERIF_SECOND_PASS", "1") != "0":
                ctx.run_second_pass(mod.replay, 400 if a.tier == "quick" else 3000)
        core.disarm_watchdog()
        rc = ctx.finish()
    except core.HangError as e:
        core.disarm_watchdog()
        ctx.violate("hang", ["does_not_return"], {"note": "a call made while replaying this case did not return"}, {"detail": str(e)})
        rc = ctx.finish()
        print("%s tier=%s (stopped: a replayed call did not return) violations=%d" % (prop, a.tier, len(ctx.violations)))
        sys.exit(rc if rc else 1)
    except core.MachineryError as e:
        print("MACHINERY-ERROR property=%s: %s" % (prop, e))
        sys.exit(2)
    except Exception as e:
        tb = traceback.extract_tb(sys.exc_info()[2])
        lib = [f for f in tb if f.filename.startswith(os.path.join(core.REPO, "geomdl"))]
        if lib:
            # the exception was raised inside the library under test while a case was being replayed: that is a verdict on the
            # library (a valid call failed), not a failure of the machinery
            ctx.violate("%s:%s" % (os.path.basename(lib[-1].filename), lib[-1].name), ["raises", "uncaught_in_harness"],
                        {"note": "exception escaped the per-call guards"}, {"exception": repr(e)[:300], "where": "%s:%d" % (lib[-1].filename, lib[-1].lineno)})
            rc = ctx.finish()
            sys.exit(rc if rc else 1)
        inside_case = [f for f in tb if os.path.join("mbt", "props") in f.filename or f.filename.endswith(("histories.py", "tracedrv.py", "cacheprobe.py"))]
        if inside_case and ctx.full is not None and isinstance(e, (IndexError, TypeError, KeyError, ValueError, AttributeError, ZeroDivisionError)):
            # a case was being replayed and the harness could not even read the library's answer (wrong nesting, wrong length, a
            # missing attribute): on the unchanged tree every answer is readable, so the answer itself deviates
            traceback.print_exc()
            ctx.violate("harness:%s:%s" % (os.path.basename(inside_case[-1].filename), inside_case[-1].name), ["unreadable_answer"],
                        {"note": "the library's answer could not be interpreted"}, {"exception": repr(e)[:300], "where": "%s:%d" % (inside_case[-1].filename, inside_case[-1].lineno)})
            rc = ctx.finish()
            sys.exit(rc if rc else 1)
        traceback.print_exc()
        print("MACHINERY-ERROR property=%s: unexpected exception in the harness" % prop)
        sys.exit(2)
    print("%s tier=%s evaluations=%d nontrivial=%d states=%d transitions=%d traces=%d violations=%d wall=%.1fs" % (
        prop, a.tier, ctx.evaluations, len(ctx.nontrivial), ctx.states, ctx.transitions, ctx.traces,
        len(ctx.violations), __import__("time").time() - ctx.t0))
    sys.exit(rc)


if __name__ == "__main__":
    main()
