"""Probes the implementation-shaped tables of spec/CacheDiscipline.tla from the working tree: which derived slots a reader
populates, and what every public mutator does to every slot (cleared / refreshed / kept), observed on real objects."""
import copy, json, os, shutil, tempfile
from . import core
from .adapter import build
from .histories import apply_step, read_view
from .core import close_seq

SHAPES = {
    "BSpline.Curve": {"deg": [2], "kv": [[[0, 1]] * 3 + [[1, 2]] + [[1, 1]] * 3], "size": [4], "rat": False,
                      "P": [[[i * i - 2, 1], [3 - i, 1], [i % 2, 1]] for i in range(4)]},
    "NURBS.Curve": {"deg": [2], "kv": [[[0, 1]] * 3 + [[1, 2]] + [[1, 1]] * 3], "size": [4], "rat": True,
                    "P": [[[(i * i - 2) * (1 + i % 2), 1], [(3 - i) * (1 + i % 2), 1], [1 + i % 2, 1]] for i in range(4)]},
    "BSpline.Surface": {"deg": [1, 2], "kv": [[[0, 1], [0, 1], [1, 2], [1, 1], [1, 1]], [[0, 1]] * 3 + [[1, 1]] * 3], "size": [3, 3], "rat": False,
                        "P": [[[i, 1], [j * j, 1], [(i + 2 * j) % 3, 1]] for i in range(3) for j in range(3)]},
    "NURBS.Surface": {"deg": [1, 2], "kv": [[[0, 1], [0, 1], [1, 2], [1, 1], [1, 1]], [[0, 1]] * 3 + [[1, 1]] * 3], "size": [3, 3], "rat": True,
                      "P": [[[i * (1 + (i + j) % 2), 1], [j * j * (1 + (i + j) % 2), 1], [((i + 2 * j) % 3) * (1 + (i + j) % 2), 1], [1 + (i + j) % 2, 1]] for i in range(3) for j in range(3)]},
    "NURBS.Volume": {"deg": [1, 1, 1], "kv": [[[0, 1], [0, 1], [1, 1], [1, 1]], [[0, 1], [0, 1], [1, 2], [1, 1], [1, 1]], [[0, 1], [0, 1], [1, 1], [1, 1]]],
                     "size": [2, 3, 2], "rat": True,
                     "P": [[[(v + 3 * u + w) * (1 + (u + v + w) % 2), 1], [(v * v - w) * (1 + (u + v + w) % 2), 1], [(u - 2 * w) * (1 + (u + v + w) % 2), 1], [1 + (u + v + w) % 2, 1]]
                           for w in range(2) for u in range(2) for v in range(3)]},
}
Q = [1, 4]


def slots_of(cls):
    s = ["evalpts", "bbox"]
    if cls.startswith("NURBS"):
        s += ["cache_ctrlpts", "cache_weights"]
    if cls.endswith("Surface"):
        s += ["tess"]
    return s


def slot_value(o, s):
    if s == "evalpts":
        return list(o._eval_points) if o._eval_points else None
    if s == "bbox":
        return [list(x) for x in o._bounding_box] if o._bounding_box else None
    if s == "cache_ctrlpts":
        return [list(p) for p in o._cache["ctrlpts"]] if o._cache.get("ctrlpts") else None
    if s == "cache_weights":
        return list(o._cache["weights"]) if o._cache.get("weights") else None
    if s == "tess":
        t = o._tsl_component
        return [list(v.data) for v in t._vertices] if t._vertices else None


def fresh_value(o, s):
    """what the slot would hold if it were (re)computed now on a twin built from the current definition"""
    from .adapter import project
    d = project(o)
    from fractions import Fraction
    tw = copy.deepcopy(o)
    tw.reset(evalpts=True)
    tw._bounding_box = tw._init_array()
    if hasattr(tw, "init_cache"):
        tw.init_cache()
    view = {"evalpts": "evalpts", "bbox": "bbox", "cache_ctrlpts": "ctrlpts", "cache_weights": "weights", "tess": "tess"}[s]
    v = read_view(tw, view)
    return v[0] if s == "tess" else v


READERS = {"evalpts": "evalpts", "bbox": "bbox", "ctrlpts": "ctrlpts", "weights": "weights", "tess": "tess"}


def readers_of(cls):
    r = ["evalpts", "bbox", "ctrlpts"]
    if cls.startswith("NURBS"):
        r.append("weights")
    if cls.endswith("Surface"):
        r.append("tess")
    return r


def mutators_of(cls, sh):
    pd = len(sh["deg"])
    m = {"insert": {"a": "insert", "prm": [Q] + [[]] * (pd - 1), "num": [1] + [0] * (pd - 1)},
         "refine": {"a": "refine", "dens": [1] + [0] * (pd - 1)},
         "set_ctrlpts": None, "translate": {"a": "translate", "vec": [[1, 1], [2, 1], [3, 1]][:len(sh["P"][0]) - (1 if sh["rat"] else 0)]},
         "sample_size": {"a": "sample_size", "n": 5}}
    if pd == 1:
        m["reverse"] = {"a": "reverse"}
    if pd == 2:
        m["transpose"] = {"a": "transpose"}
        m["flip"] = {"a": "flip"}
    if sh["rat"]:
        m["set_weights"] = None
    return m


def do_mut(o, name, step, sh):
    if name == "set_ctrlpts":
        o.ctrlpts = [[x + 1.0 for x in p] for p in o.ctrlpts]
    elif name == "set_weights":
        o.weights = [w * (2.0 if i % 2 else 3.0) for i, w in enumerate(o.weights)]
    else:
        apply_step(o, step, "method")


WRITES = {"insert": ["kv", "pts", "order", "size"], "refine": ["kv", "pts", "order", "size"], "reverse": ["kv", "order"],
          "transpose": ["deg", "kv", "order", "size"], "flip": ["order"], "set_ctrlpts": ["pts"], "set_weights": ["pts", "weights"],
          "translate": ["pts"], "sample_size": ["sampling"]}
DEPENDS = {"evalpts": ["deg", "kv", "pts", "order", "size", "weights", "sampling"], "bbox": ["pts"], "cache_ctrlpts": ["pts", "order", "size"],
           "cache_weights": ["weights", "order", "size"], "tess": ["deg", "kv", "pts", "order", "size", "weights", "sampling"]}


def probe():
    tables = {}
    for cls, sh in SHAPES.items():
        slots, readers, muts = slots_of(cls), readers_of(cls), mutators_of(cls, sh)
        def fresh():
            o = build(sh)
            o.sample_size = 3
            return o
        populates = {}
        for r in readers:
            o = fresh()
            read_view(o, READERS[r])
            populates[r] = [s for s in slots if slot_value(o, s) is not None]
        effect = {}
        for name, step in muts.items():
            effect[name] = {}
            # two different pre-states: everything populated / only one slot populated (clearing must not depend on the state)
            outcomes = {s: set() for s in slots}
            for pre in (readers, readers[:1], readers[-1:]):
                o = fresh()
                for r in pre:
                    read_view(o, READERS[r])
                before = {s: slot_value(o, s) is not None for s in slots}
                do_mut(o, name, step, sh)
                for s in slots:
                    if not before[s]:
                        continue
                    val = slot_value(o, s)
                    if val is None:
                        outcomes[s].add("cleared")
                    elif close_seq(val, fresh_value(o, s), 1e-9):
                        # non-empty and equal to a recomputation: refreshed (or the mutator does not affect this slot's value)
                        outcomes[s].add("refreshed" if set(WRITES[name]) & set(DEPENDS[s]) else "kept")
                    else:
                        outcomes[s].add("kept")
            for s in slots:
                oc = outcomes[s] or {"cleared"}
                effect[name][s] = "kept" if "kept" in oc else ("refreshed" if "refreshed" in oc else "cleared")
        tables[cls] = {"slots": slots, "readers": readers, "muts": list(muts), "populates": populates, "effect": effect,
                       "writes": {m: WRITES[m] for m in muts}, "depends": {s: DEPENDS[s] for s in slots}}
    return tables


def cache_discipline_check(ctx):
    try:
        tables = probe()
    except (AttributeError, KeyError) as e:
        # The flag abstraction is implementation-shaped: it reads geomdl's private cache slots (_eval_points, _bounding_box,
        # _cache[...], the tessellator's _vertices).  If those slots no longer exist the abstraction does not apply to this tree; the
        # black-box comparison of every view with a fresh twin (above) stays the binding check.
        ctx.extra["cache_discipline"] = {"skipped": "private cache slots not found (%s): flag abstraction not applicable to this tree" % repr(e)[:120]}
        return
    d = tempfile.mkdtemp(prefix="verif_cd_")
    path = os.path.join(d, "tables.json")
    json.dump(tables, open(path, "w"))
    total_states = 0
    cands = []
    for cls in tables:
        res = core.run_tlc("CacheDiscipline", "CacheDiscipline.cfg", env={"TABLES": path, "CLS": cls}, tags=("STALE",), timeout=300, workers=4)
        if res.error:
            shutil.rmtree(d, ignore_errors=True)
            raise core.MachineryError("CacheDiscipline failed for %s: %s\n%s" % (cls, res.error, res.stdout_tail[-1500:]))
        ctx.add_tlc(res, "CacheDiscipline: complete flag graph (all histories of any length) for %s" % cls)
        total_states += res.distinct
        for tag, c in res.cases:
            if (c["cls"], c["mut"], c["slot"]) not in cands and c["mut"] in tables[cls]["muts"]:
                cands.append((c["cls"], c["mut"], c["slot"]))
    shutil.rmtree(d, ignore_errors=True)
    # every candidate is confirmed on the real object by its minimal history: populate the slot, mutate, read the view
    for cls, mut, slot in cands:
        sh = SHAPES[cls]
        o = build(sh)
        o.sample_size = 3
        view = {"evalpts": "evalpts", "bbox": "bbox", "cache_ctrlpts": "ctrlpts", "cache_weights": "weights", "tess": "tess"}[slot]
        read_view(o, view)
        do_mut(o, mut, mutators_of(cls, sh)[mut], sh)
        got = read_view(o, view)
        tw = copy.deepcopy(o)
        tw.reset(evalpts=True)
        tw._bounding_box = tw._init_array()
        if hasattr(tw, "init_cache"):
            tw.init_cache()
        exp = read_view(tw, view)
        ctx.full = {"cache_discipline": {"cls": cls, "mut": mut, "slot": slot}}
        if not close_seq(got, exp, 1e-9):
            ctx.violate("%s.%s" % (cls, mut), ["cache_discipline", "slot=" + slot], {"history": ["read " + view, mut, "read " + view]},
                        {"object_reports": str(got)[:200], "recomputed": str(exp)[:200]})
        else:
            # the flag graph is an over-approximation (a slot marked stale may hold a value that happens to be right): not a verdict
            ctx.extra.setdefault("cache_discipline_unconfirmed_candidates", []).append([cls, mut, slot])
    ctx.extra["cache_discipline"] = {"classes": list(tables), "flag_states_explored": total_states, "stale_candidates": len(cands),
                                     "effect_tables": {c: t["effect"] for c, t in tables.items()}}
