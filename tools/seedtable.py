#!/venv/bin/python
"""tools/seedtable.py : rewrite the seed table in DESIGN.md from seeded/*/meta.json"""
import glob, json, os, re
V = "/verif"
rows = []
for d in sorted(glob.glob(V + "/seeded/*")):
    m = json.load(open(d + "/meta.json"))
    det = m.get("detected_by") or {}
    caught = next((t for t in ("quick", "thorough") if isinstance(det.get(t), dict) and det[t]["exit"] == 1), None)
    sites = ", ".join((det.get(caught) or {}).get("violation_sites", [])[:2]) if caught else ""
    first = m["needs_to_manifest"].strip().split("\n")[0][:150].replace("|", "/")
    note = m.get("note_by_framework_author")
    rows.append("| %s | %s | %s | %s | %s |" % (m["seed_id"], m["breaks_property"], first, ("caught (%s)" % caught) if caught else ("**missed** - " + note if note else "**missed**"), sites.replace("|", "/")))
tab = "| seed | property | change (first line of the author's note) | result | violation reported at |\n|---|---|---|---|---|\n" + "\n".join(rows) + "\n"
s = open(V + "/DESIGN.md").read()
s = re.sub(r"<!-- SEEDTABLE:BEGIN -->.*?<!-- SEEDTABLE:END -->", "<!-- SEEDTABLE:BEGIN -->\n" + tab + "<!-- SEEDTABLE:END -->", s, flags=re.S)
open(V + "/DESIGN.md", "w").write(s)
print(len(rows), "seeds;", sum(1 for r in rows if "missed" in r), "missed")
