#!/bin/sh
# demonstrates the binding between Trace_Geomdl.tla and recorded executions (honest accepted, corrupted/dropped rejected)
cd "$(dirname "$0")/.." && PYTHONHASHSEED=0 PYTHONPATH="${VERIF_REPO:-/repo}:$PWD" exec /venv/bin/python -m mbt.selftest
