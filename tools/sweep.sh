#!/bin/sh
# tools/sweep.sh quick|thorough [ids...] : run the registered command of every (or the given) property on /repo's working tree,
# one after the other, and print "<id> exit=<rc> wall=<s>" plus the verdict line.  Used before committing evidence.
TIER="${1:-quick}"; shift
IDS="${*:-C01 C02 C03 C04 C05 C06 C07 C08 C09 C10 C11 C12 C13 C14 C15 C16 C17 C18 C19 C20}"
cd "$(dirname "$0")/.."
bad=0
for p in $IDS; do
  t0=$(date +%s)
  out=$(timeout 7200 ./check "$p" --tier "$TIER" 2>&1); rc=$?
  t1=$(date +%s)
  echo "$p exit=$rc wall=$((t1 - t0))s $(echo "$out" | grep -E "tier=" | tail -1)"
  if [ $rc -ne 0 ]; then bad=1; echo "$out" | grep -E "VIOLATION|MACHINERY|call_site" | head -6; fi
done
exit $bad
