#!/bin/sh
# tools/seedcheck.sh <patch.diff> <PROP> [tier] : run ./check PROP against a scratch copy of /repo with the patch applied.
# The scratch copy lives outside /repo and /verif and is removed afterwards.
set -u
PATCH="$1"; PROP="$2"; TIER="${3:-quick}"
D=$(mktemp -d /tmp/seedcheck.XXXXXX)
mkdir -p "$D/repo" && cp -r /repo/geomdl "$D/repo/geomdl"
if ! (cd "$D/repo" && patch -p1 -s < "$PATCH"); then echo "PATCH FAILED"; rm -rf "$D"; exit 3; fi
VERIF_REPO="$D/repo" VERIF_NO_EVIDENCE=1 /verif/check "$PROP" --tier "$TIER" > "$D/out.txt" 2>&1
rc=$?
grep -E "^VIOLATION|^KNOWN|^MACHINERY|tier=" "$D/out.txt" | head -8
grep -A1 "^VIOLATION" "$D/out.txt" | grep call_site | head -4
rm -rf "$D" /verif/replays
echo "exit=$rc"
exit $rc
