#!/venv/bin/python
"""tools/seedall.py [seed-id ...] : run the quick (and if missed, thorough) check of the broken property against every kept
seeded change (scratch copy of /repo with the patch applied) and record the outcome in seeded/<id>/meta.json."""
import json, os, subprocess, sys, glob, shutil, tempfile
import concurrent.futures as cf
V = "/verif"
TIERS = ("quick", "thorough") if "--thorough" in sys.argv else ("quick",)
sys.argv = [a for a in sys.argv if a != "--thorough"]
JOBS = 1
for a in list(sys.argv):
    if a.startswith("--jobs="):
        JOBS = int(a.split("=")[1])
        sys.argv.remove(a)
ids = sys.argv[1:] or sorted(os.path.basename(d) for d in glob.glob(V + "/seeded/*") if os.path.isdir(d))
claimed = {c["property_id"] for c in json.load(open(V + "/MANIFEST.json"))["checks"]}
def one(sid):
    d = os.path.join(V, "seeded", sid)
    meta = json.load(open(d + "/meta.json"))
    prop = meta["breaks_property"]
    if prop not in claimed and not os.path.exists(V + "/mbt/props/%s.py" % prop.lower()):
        return sid + " SKIP (no check for %s yet)" % prop
    res = {}
    for tier in TIERS:
        scratch = tempfile.mkdtemp(prefix="seedall_")
        shutil.copytree("/repo/geomdl", scratch + "/repo/geomdl")
        p = subprocess.run(["patch", "-p1", "-s", "-i", d + "/patch.diff"], cwd=scratch + "/repo", capture_output=True, text=True)
        if p.returncode != 0:
            res[tier] = "patch failed"
            shutil.rmtree(scratch)
            break
        env = dict(os.environ, VERIF_REPO=scratch + "/repo", VERIF_NO_EVIDENCE="1", VERIF_REPLAY_DIR=scratch + "/replays")
        r = subprocess.run([V + "/check", prop, "--tier", tier], env=env, capture_output=True, text=True)
        shutil.rmtree(scratch)
        sites = sorted({l.split("call_site=")[1].split(" ")[0] for l in r.stdout.splitlines() if "call_site=" in l})
        res[tier] = {"exit": r.returncode, "violation_sites": sites[:6]}
        if r.returncode == 1:
            break
    meta["detected_by"] = res
    json.dump(meta, open(d + "/meta.json", "w"), indent=1)
    caught = next((t for t in ("quick", "thorough") if isinstance(res.get(t), dict) and res[t]["exit"] == 1), None)
    return "%s %s %s" % (sid, prop, "CAUGHT by %s" % caught if caught else "MISSED %s" % res)


with cf.ThreadPoolExecutor(max_workers=JOBS) as ex:
    for line in ex.map(one, ids):
        print(line, flush=True)
