#!/venv/bin/python
"""Which part of geomdl do the quick checks execute?  Runs every quick check under coverage.py (scratch data outside /verif),
and writes notes/apicov.md: per module line coverage and the public functions no check reaches.  Diagnostic only - it is not a
registered check and decides nothing."""
import json, os, subprocess, sys, tempfile, shutil

VERIF = os.path.dirname(os.path.dirname(os.path.abspath(__file__)))
REPO = os.environ.get("VERIF_REPO", "/repo")
props = sys.argv[1:] or ["C%02d" % i for i in range(1, 21)]
tmp = tempfile.mkdtemp(prefix="apicov-")
env = dict(os.environ, PYTHONPATH="%s:%s" % (REPO, VERIF), VERIF_NO_EVIDENCE="1", PYTHONHASHSEED="0")
procs = []
for p in props:
    e = dict(env, COVERAGE_FILE=os.path.join(tmp, ".coverage." + p))
    procs.append((p, subprocess.Popen(["/venv/bin/python", "-m", "coverage", "run", "--source=" + os.path.join(REPO, "geomdl"), "-m", "mbt.run", p],
                                      cwd=VERIF, env=e, stdout=subprocess.PIPE, stderr=subprocess.STDOUT, text=True)))
    if len(procs) % 4 == 0:
        for _, q in procs[-4:]:
            q.wait()
for p, q in procs:
    out = q.communicate()[0]
    print(p, "rc=%d" % q.returncode, out.strip().splitlines()[-1][:160] if out.strip() else "")
e = dict(env, COVERAGE_FILE=os.path.join(tmp, ".coverage"))
subprocess.check_call(["/venv/bin/python", "-m", "coverage", "combine", tmp], env=e, cwd=tmp, stdout=subprocess.DEVNULL)
subprocess.check_call(["/venv/bin/python", "-m", "coverage", "json", "-o", os.path.join(tmp, "cov.json"), "--omit=*/visualization/*"], env=e, cwd=tmp, stdout=subprocess.DEVNULL)
cov = json.load(open(os.path.join(tmp, "cov.json")))
lines = ["# geomdl code reached by the quick checks (coverage.py, diagnostic)", "",
         "| module | statements | executed | % | public functions never entered |", "|---|---|---|---|---|"]
tot = [0, 0]
for fn, d in sorted(cov["files"].items()):
    mod = os.path.basename(fn)
    s = d["summary"]
    tot[0] += s["num_statements"]; tot[1] += s["covered_lines"]
    missing = []
    for name, f in sorted(d.get("functions", {}).items()):
        if not name or f["summary"]["num_statements"] == 0:
            continue
        leaf = name.split(".")[-1]
        if leaf.startswith("_") and not (leaf.startswith("__") and leaf.endswith("__")):
            continue
        if f["summary"]["covered_lines"] == 0:
            missing.append(name)
    lines.append("| %s | %d | %d | %.0f | %s |" % (mod, s["num_statements"], s["covered_lines"], s["percent_covered"], ", ".join(missing) or "-"))
lines.append("| **total** | %d | %d | %.0f | |" % (tot[0], tot[1], 100.0 * tot[1] / max(1, tot[0])))
os.makedirs(os.path.join(VERIF, "notes"), exist_ok=True)
open(os.path.join(VERIF, "notes", "apicov.md"), "w").write("\n".join(lines) + "\n")
shutil.rmtree(tmp, ignore_errors=True)
print("\n".join(lines[-1:]))
