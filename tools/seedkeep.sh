#!/bin/sh
# tools/seedkeep.sh <seed-out-dir> <k> <PROP> <seed-id> : confirm a sub-agent's seeded change independently
# (demo passes pristine, fails with change, repo tests pass with change), then store it under /verif/seeded/<seed-id>/
set -u
OUT="$1"; K="$2"; PROP="$3"; ID="$4"
D=$(mktemp -d /tmp/seedkeep.XXXXXX)
git -C /repo worktree add --detach "$D/wt" HEAD >/dev/null 2>&1 || { echo "worktree failed"; exit 3; }
cd "$D/wt"
PYTHONPATH="$D/wt" /venv/bin/python "$OUT/demo$K.py" > "$D/pristine.txt" 2>&1; rc_p=$?
git apply "$OUT/change$K.diff" || { echo "apply failed"; git -C /repo worktree remove --force "$D/wt"; rm -rf "$D"; exit 3; }
PYTHONPATH="$D/wt" /venv/bin/python "$OUT/demo$K.py" > "$D/changed.txt" 2>&1; rc_c=$?
PYTHONPATH="$D/wt" /venv/bin/python -m pytest -q -p no:cacheprovider --timeout=900 --continue-on-collection-errors -x --ignore=tests/test_visualization.py > "$D/tests.txt" 2>&1; rc_t=$?
tail -1 "$D/tests.txt"
echo "demo pristine rc=$rc_p, demo changed rc=$rc_c, tests rc=$rc_t"
cd /verif
if [ $rc_p -eq 0 ] && [ $rc_c -ne 0 ] && [ $rc_t -eq 0 ]; then
  mkdir -p "/verif/seeded/$ID"
  cp "$OUT/change$K.diff" "/verif/seeded/$ID/patch.diff"
  cp "$OUT/demo$K.py" "/verif/seeded/$ID/demo.py"
  /venv/bin/python - "$OUT/meta$K.txt" "$PROP" "$ID" "$(tail -1 $D/tests.txt)" <<'PY'
import json,sys
meta=open(sys.argv[1]).read()
json.dump({"seed_id":sys.argv[3],"breaks_property":sys.argv[2],"author":"independent sub-agent (saw only the property text)",
 "needs_to_manifest":meta,"confirmed":{"demo_on_pristine":"exit 0","demo_with_change":"non-zero exit","repo_tests_with_change":sys.argv[4],
 "how":"tools/seedkeep.sh: scratch git worktree of /repo under /tmp, demo before/after git apply, full pytest run with the change, worktree removed"},
 "detected_by":None},open("/verif/seeded/%s/meta.json"%sys.argv[3],"w"),indent=1)
PY
  echo "KEPT $ID"
else
  echo "REJECTED $ID"
fi
git -C /repo worktree remove --force "$D/wt"; rm -rf "$D"
