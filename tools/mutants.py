#!/venv/bin/python
"""Mutation campaign (diagnostic, not a registered check).

Generates small syntactic changes of geomdl (one per mutant: an operator, a comparison, an integer constant, a u/v/w name,
a dropped copy, a boolean connective), keeps those that still pass the repository's 222 tests, and runs the quick checks on a
scratch copy of the tree (outside /repo and /verif, removed at the end) with VERIF_REPO pointing at it.  The output of the
pure-specification TLC runs does not depend on the code and is computed once (VERIF_TLC_CACHE).

    tools/mutants.py gen   [--per-file N] [--seed S]     -> /tmp/mut/mutants.json
    tools/mutants.py run   [--jobs J] [--limit N]        -> /tmp/mut/results.jsonl
    tools/mutants.py report                              -> notes/mutants.md (summary, survivors by function)

A surviving mutant is not a verdict: many are equivalent or change behaviour no listed property speaks about.  The list is read
by hand to find behaviour the specification does not yet bind."""
import ast, copy, json, os, random, shutil, subprocess, sys, time, argparse, concurrent.futures as cf

VERIF = os.path.dirname(os.path.dirname(os.path.abspath(__file__)))
REPO = "/repo"
WORK = "/tmp/mut"
FILES = ["helpers.py", "operations.py", "_operations.py", "BSpline.py", "NURBS.py", "abstract.py", "evaluators.py", "knotvector.py",
         "linalg.py", "_linalg.py", "fitting.py", "construct.py", "compatibility.py", "convert.py", "_convert.py", "control_points.py",
         "CPGen.py", "exchange.py", "_exchange.py", "tessellate.py", "_tessellate.py", "voxelize.py", "_voxelize.py", "ray.py",
         "multi.py", "sweeping.py", "utilities.py", "_utilities.py", "elements.py"]
PROPS = ["C%02d" % i for i in range(1, 21)] + ["X01"]
SWAP = {"_u": "_v", "_v": "_u", "_w": "_v"}


class Mutator(ast.NodeTransformer):
    """Applies exactly the k-th applicable mutation; with k=None only counts and describes them."""

    def __init__(self, k=None):
        self.k, self.n, self.desc, self.func = k, 0, None, []
        self.sites = []

    def _hit(self, node, what):
        i = self.n
        self.n += 1
        self.sites.append((i, getattr(node, "lineno", 0), ".".join(self.func) or "<module>", what))
        if self.k is not None and i == self.k:
            self.desc = (getattr(node, "lineno", 0), ".".join(self.func) or "<module>", what)
            return True
        return False

    def visit_FunctionDef(self, node):
        self.func.append(node.name)
        # skip docstring
        body = node.body
        if body and isinstance(body[0], ast.Expr) and isinstance(getattr(body[0], "value", None), ast.Constant) and isinstance(body[0].value.value, str):
            rest = [self.visit(b) for b in body[1:]]
            node.body = [body[0]] + rest
            node.args = node.args
        else:
            node.body = [self.visit(b) for b in body]
        self.func.pop()
        return node

    def visit_ClassDef(self, node):
        self.func.append(node.name)
        self.generic_visit(node)
        self.func.pop()
        return node

    def visit_BinOp(self, node):
        self.generic_visit(node)
        for a, b in ((ast.Add, ast.Sub), (ast.Sub, ast.Add), (ast.Mult, ast.Add), (ast.FloorDiv, ast.Mult)):
            if isinstance(node.op, a):
                if isinstance(node.left, ast.Constant) and isinstance(node.left.value, str):
                    break
                if self._hit(node, "%s -> %s" % (a.__name__, b.__name__)):
                    return ast.copy_location(ast.BinOp(node.left, b(), node.right), node)
                break
        return node

    def visit_Compare(self, node):
        self.generic_visit(node)
        if len(node.ops) == 1:
            for a, b in ((ast.Lt, ast.LtE), (ast.LtE, ast.Lt), (ast.Gt, ast.GtE), (ast.GtE, ast.Gt), (ast.Eq, ast.NotEq), (ast.NotEq, ast.Eq)):
                if isinstance(node.ops[0], a):
                    if self._hit(node, "%s -> %s" % (a.__name__, b.__name__)):
                        return ast.copy_location(ast.Compare(node.left, [b()], node.comparators), node)
                    break
        return node

    def visit_BoolOp(self, node):
        self.generic_visit(node)
        a, b = (ast.And, ast.Or) if isinstance(node.op, ast.And) else (ast.Or, ast.And)
        if self._hit(node, "%s -> %s" % (a.__name__, b.__name__)):
            return ast.copy_location(ast.BoolOp(b(), node.values), node)
        return node

    def visit_UnaryOp(self, node):
        self.generic_visit(node)
        if isinstance(node.op, (ast.Not, ast.USub)):
            if self._hit(node, "drop %s" % type(node.op).__name__):
                return node.operand
        return node

    def visit_Constant(self, node):
        if isinstance(node.value, bool) or not isinstance(node.value, int):
            return node
        if self._hit(node, "int %d -> %d" % (node.value, node.value + 1)):
            return ast.copy_location(ast.Constant(node.value + 1), node)
        if node.value > 0 and self._hit(node, "int %d -> %d" % (node.value, node.value - 1)):
            return ast.copy_location(ast.Constant(node.value - 1), node)
        return node

    def _swap(self, name):
        for suf, rep in SWAP.items():
            if name.endswith(suf):
                return name[:-len(suf)] + rep
            mid = suf + "_"
            if mid in name:
                return name.replace(mid, rep + "_", 1)
        return None

    def visit_Attribute(self, node):
        self.generic_visit(node)
        new = self._swap(node.attr)
        if new and isinstance(node.ctx, ast.Load) and self._hit(node, "attr %s -> %s" % (node.attr, new)):
            return ast.copy_location(ast.Attribute(node.value, new, node.ctx), node)
        return node

    def visit_Name(self, node):
        new = self._swap(node.id)
        if new and isinstance(node.ctx, ast.Load) and self._hit(node, "name %s -> %s" % (node.id, new)):
            return ast.copy_location(ast.Name(new, node.ctx), node)
        return node

    def visit_Call(self, node):
        self.generic_visit(node)
        f = node.func
        nm = f.attr if isinstance(f, ast.Attribute) else (f.id if isinstance(f, ast.Name) else "")
        if nm in ("deepcopy", "copy", "list", "tuple") and len(node.args) == 1 and not node.keywords:
            if self._hit(node, "drop %s()" % nm):
                return node.args[0]
        return node

    def visit_Subscript(self, node):
        self.generic_visit(node)
        sl = node.slice
        if isinstance(sl, (ast.Name, ast.BinOp)) and isinstance(node.ctx, ast.Load):
            if self._hit(node, "index +1"):
                return ast.copy_location(ast.Subscript(node.value, ast.BinOp(sl, ast.Add(), ast.Constant(1)), node.ctx), node)
        return node

    def visit_If(self, node):
        self.generic_visit(node)
        if self._hit(node, "negate if"):
            node.test = ast.UnaryOp(ast.Not(), node.test)
        return node


def sites_of(fn):
    src = open(os.path.join(REPO, "geomdl", fn)).read()
    m = Mutator(None)
    m.visit(ast.parse(src))
    return m.sites


def mutate(fn, k):
    src = open(os.path.join(REPO, "geomdl", fn)).read()
    tree = ast.parse(src)
    m = Mutator(k)
    tree = m.visit(tree)
    ast.fix_missing_locations(tree)
    return ast.unparse(tree), m.desc


def gen(per_file, seed):
    rnd = random.Random(seed)
    out = []
    for fn in FILES:
        sites = [s for s in sites_of(fn) if not any(x in s[2] for x in ("__str__", "__repr__", "render", "vis", "color", "save", "load"))]
        rnd.shuffle(sites)
        for i, line, func, what in sites[:per_file]:
            out.append({"file": fn, "k": i, "line": line, "func": func, "what": what})
    os.makedirs(WORK, exist_ok=True)
    json.dump(out, open(os.path.join(WORK, "mutants.json"), "w"), indent=0)
    print("generated", len(out), "mutants over", len(FILES), "files")


def worker_dir(w):
    d = os.path.join(WORK, "w%d" % w)
    if not os.path.isdir(d):
        os.makedirs(d)
        shutil.copytree(os.path.join(REPO, "geomdl"), os.path.join(d, "geomdl"), ignore=shutil.ignore_patterns("__pycache__"))
        shutil.copytree(os.path.join(REPO, "tests"), os.path.join(d, "tests"), ignore=shutil.ignore_patterns("__pycache__"))
        for f in ("setup.cfg", "pytest.ini", "tox.ini", "conftest.py"):
            if os.path.exists(os.path.join(REPO, f)):
                shutil.copy(os.path.join(REPO, f), d)
    return d


def one(args):
    w, mu, skip_trace = args
    d = worker_dir(w)
    tgt = os.path.join(d, "geomdl", mu["file"])
    rec = dict(mu)
    try:
        src, desc = mutate(mu["file"], mu["k"])
    except Exception as e:
        rec["status"] = "gen_error: %r" % e
        return rec
    env = dict(os.environ, PYTHONPATH=d, PYTHONDONTWRITEBYTECODE="1", PYTHONHASHSEED="0")
    try:
        open(tgt, "w").write(src)
        try:
            p = subprocess.run(["/venv/bin/python", "-m", "pytest", "-q", "-p", "no:cacheprovider", "--timeout=120", "-x", "--ignore=tests/test_visualization.py"],
                               cwd=d, env=env, capture_output=True, text=True, timeout=600)
            tests_ok = p.returncode == 0
        except subprocess.TimeoutExpired:
            tests_ok = False
        if not tests_ok:
            rec["status"] = "killed_by_tests"
            return rec
        cenv = dict(os.environ, VERIF_REPO=d, VERIF_NO_EVIDENCE="1", VERIF_TLC_CACHE=os.path.join(WORK, "tlccache"), PYTHONDONTWRITEBYTECODE="1",
                    PYTHONHASHSEED="0", VERIF_REPLAY_DIR=os.path.join(d, "replays"))
        if skip_trace:
            cenv["VERIF_SKIP_TRACE"] = "1"
        rec["status"] = "survived"
        rec["checks"] = {}
        for prop in order_for(mu["file"]):
            t0 = time.time()
            try:
                q = subprocess.run([os.path.join(VERIF, "check"), prop], cwd=VERIF, env=cenv, capture_output=True, text=True, timeout=300)
                rc, outp = q.returncode, q.stdout
            except subprocess.TimeoutExpired:
                rc, outp = 1, "VIOLATION (timeout: the change makes a replayed call hang)"
            rec["checks"][prop] = rc
            if rc == 1 and "VIOLATION" in outp:
                rec["status"] = "killed"
                rec["killed_by"] = prop
                sites = [l.strip()[:160] for l in outp.splitlines() if l.strip().startswith("call_site=")]
                rec["first_site"] = sites[0] if sites else ""
                break
            if rc == 2:
                rec.setdefault("machinery", []).append(prop + ": " + outp.strip().splitlines()[-1][:200] if outp.strip() else prop)
        return rec
    finally:
        shutil.copy(os.path.join(REPO, "geomdl", mu["file"]), tgt)


RELEVANT = {"helpers.py": ["C03", "C01", "C04", "C05", "C06", "C08", "C02"], "operations.py": ["C04", "C06", "C05", "C07", "C10", "C02", "C13", "C18", "C20", "C08"],
            "_operations.py": ["C02", "C20", "C18"], "linalg.py": ["C16", "C20", "C11"], "_linalg.py": ["C16", "C11"], "fitting.py": ["C11"],
            "exchange.py": ["C14", "C15"], "_exchange.py": ["C14"], "tessellate.py": ["C15"], "_tessellate.py": ["C15"], "voxelize.py": ["C20", "C17"],
            "_voxelize.py": ["C20", "C17"], "ray.py": ["C20"], "multi.py": ["C12", "C10", "C15", "C17"], "construct.py": ["C13"], "sweeping.py": ["C13"],
            "compatibility.py": ["C09", "C13"], "convert.py": ["C09"], "_convert.py": ["C09"], "control_points.py": ["C13"], "CPGen.py": ["C09"],
            "knotvector.py": ["C03", "C17"], "evaluators.py": ["C01", "C02", "C17"], "abstract.py": ["C12", "C19", "C01", "C09", "C15"],
            "BSpline.py": ["C01", "C02", "C12", "C13"], "NURBS.py": ["C09", "C12", "C01"], "elements.py": ["C15"], "utilities.py": ["C15", "C01"],
            "_utilities.py": ["C01"]}


def order_for(fn):
    first = RELEVANT.get(fn, [])
    return first + [p for p in PROPS if p not in first]


def run(jobs, limit, skip_trace, only_status=None):
    mus = json.load(open(os.path.join(WORK, "mutants.json")))
    done = set()
    rp = os.path.join(WORK, "results.jsonl")
    if os.path.exists(rp):
        for l in open(rp):
            r = json.loads(l)
            done.add((r["file"], r["k"]))
    todo = [m for m in mus if (m["file"], m["k"]) not in done][:limit]
    print("to run:", len(todo), "already done:", len(done))
    # one TLC cache warm-up on the pristine tree so that parallel workers do not all run TLC
    warm = dict(os.environ, VERIF_NO_EVIDENCE="1", VERIF_TLC_CACHE=os.path.join(WORK, "tlccache"))
    if skip_trace:
        warm["VERIF_SKIP_TRACE"] = "1"
    if not os.path.isdir(os.path.join(WORK, "tlccache")) or len(os.listdir(os.path.join(WORK, "tlccache"))) < 20:
        for prop in PROPS:
            subprocess.run([os.path.join(VERIF, "check"), prop], cwd=VERIF, env=warm, capture_output=True, text=True)
    with cf.ThreadPoolExecutor(max_workers=jobs) as ex, open(rp, "a") as fo:
        slots = list(range(jobs))
        import queue
        q = queue.Queue()
        for s_ in slots:
            q.put(s_)

        def task(mu):
            w = q.get()
            try:
                return one((w, mu, skip_trace))
            finally:
                q.put(w)
        futs = [ex.submit(task, mu) for mu in todo]
        for n, fu in enumerate(cf.as_completed(futs)):
            rec = fu.result()
            fo.write(json.dumps(rec) + "\n")
            fo.flush()
            if n % 20 == 0:
                print(n, rec["file"], rec["func"], rec["what"], rec["status"], rec.get("killed_by", ""), flush=True)


def report():
    rs = [json.loads(l) for l in open(os.path.join(WORK, "results.jsonl"))]
    by = {}
    for r in rs:
        b = by.setdefault(r["file"], {"n": 0, "tests": 0, "killed": 0, "survived": 0, "other": 0})
        b["n"] += 1
        st = r["status"]
        b["tests" if st == "killed_by_tests" else "killed" if st == "killed" else "survived" if st == "survived" else "other"] += 1
    lines = ["# Mutation campaign (diagnostic)", "",
             "One small syntactic change per mutant (`tools/mutants.py`); mutants that fail the repository's own tests are discarded; the rest are",
             "run through the quick checks in the order most-relevant-first until one reports a violation.  Survivors are listed for reading, not as verdicts.", "",
             "| module | mutants | fail the repo tests | pass the tests and are caught by a check | pass the tests and survive |", "|---|---|---|---|---|"]
    tot = {"n": 0, "tests": 0, "killed": 0, "survived": 0}
    for fn in sorted(by):
        b = by[fn]
        lines.append("| %s | %d | %d | %d | %d |" % (fn, b["n"], b["tests"], b["killed"], b["survived"]))
        for k in tot:
            tot[k] += b[k]
    lines.append("| **total** | %d | %d | %d | %d |" % (tot["n"], tot["tests"], tot["killed"], tot["survived"]))
    kb = {}
    for r in rs:
        if r["status"] == "killed":
            kb[r["killed_by"]] = kb.get(r["killed_by"], 0) + 1
    lines += ["", "Catching check: " + ", ".join("%s %d" % (k, v) for k, v in sorted(kb.items())), "", "## Survivors", ""]
    for r in sorted((r for r in rs if r["status"] == "survived"), key=lambda r: (r["file"], r["line"])):
        lines.append("- `%s:%d` `%s` — %s%s" % (r["file"], r["line"], r["func"], r["what"], (" — triage: " + r["triage"]) if r.get("triage") else ""))
    os.makedirs(os.path.join(VERIF, "notes"), exist_ok=True)
    open(os.path.join(VERIF, "notes", "mutants.md"), "w").write("\n".join(lines) + "\n")
    print("\n".join(lines[:40]))


if __name__ == "__main__":
    ap = argparse.ArgumentParser()
    ap.add_argument("cmd", choices=["gen", "run", "report", "show"])
    ap.add_argument("--per-file", type=int, default=40)
    ap.add_argument("--seed", type=int, default=1)
    ap.add_argument("--jobs", type=int, default=8)
    ap.add_argument("--limit", type=int, default=100000)
    ap.add_argument("--with-trace", action="store_true")
    ap.add_argument("--file")
    ap.add_argument("--k", type=int)
    a = ap.parse_args()
    if a.cmd == "gen":
        gen(a.per_file, a.seed)
    elif a.cmd == "run":
        run(a.jobs, a.limit, not a.with_trace)
    elif a.cmd == "show":
        src, desc = mutate(a.file, a.k)
        print(desc)
        orig = ast.unparse(ast.parse(open(os.path.join(REPO, "geomdl", a.file)).read())).splitlines()
        import difflib
        print("\n".join(difflib.unified_diff(orig, src.splitlines(), lineterm="", n=2)))
    else:
        report()
