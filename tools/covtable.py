#!/venv/bin/python
"""tools/covtable.py : rewrite the measured-coverage table in DESIGN.md from evidence/*.json (as written by the last runs)"""
import glob, json, re
V = "/verif"
rows = []
for f in sorted(glob.glob(V + "/evidence/C*.json")):
    e = json.load(open(f))
    c = e["coverage"]
    models = "; ".join("%s %d st" % (r["cmd"].split()[-1].replace(".tla", ""), r["distinct"]) for r in c.get("tlc_runs", [])[:4])
    rows.append("| %s | %s | %d | %d | %d | %d | %d | %.0f s | %s |" % (e["property_id"], e["tier"], c["states"], c["transitions"], c["evaluations"],
                c["distinct_nontrivial"], c["traces_validated_against_impl"], e["wall_s"], ", ".join(c.get("known_findings_hit", [])) or "-"))
tab = ("| property | tier | TLC distinct states | TLC transitions | cases replayed | distinct non-trivial | traces/cases bound to the code | wall | known findings hit |\n"
       "|---|---|---|---|---|---|---|---|---|\n" + "\n".join(rows) + "\n")
s = open(V + "/DESIGN.md").read()
s = re.sub(r"<!-- COVTABLE:BEGIN -->.*?<!-- COVTABLE:END -->", "<!-- COVTABLE:BEGIN -->\n" + tab + "<!-- COVTABLE:END -->", s, flags=re.S)
open(V + "/DESIGN.md", "w").write(s)
print(len(rows), "rows")
