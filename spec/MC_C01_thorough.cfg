SPECIFICATION Spec
CONSTANTS
  CurveP = {1,2,3,4}
  CurveInt = 4
  CurveVals <- KQ
  SurfMode = 2
  VolMode = 2
  MaxNS = 8
  Seed = 2
INVARIANT T_WellFormed
INVARIANT T_Definition
INVARIANT T_Grid
INVARIANT T_Corners
INVARIANT Emit
CHECK_DEADLOCK FALSE
