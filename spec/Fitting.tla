------------------------------- MODULE Fitting -------------------------------
(* Global interpolation / least-squares approximation (NURBS Book ch. 9):     *)
(* parameters, averaged knot vectors, collocation matrices - all exact on      *)
(* data sets whose consecutive distances are rational.                         *)
EXTENDS Basis

\* a step is <<vector, length, sqrt(length) or 0>>
RECURSIVE CumPts(_, _)
CumPts(p0, steps) == IF steps = <<>> THEN <<p0>> ELSE <<p0>> \o CumPts([k \in 1..Len(p0) |-> p0[k] + steps[1][1][k]], Tail(steps))
\* Eq 9.4-9.6: u_0 = 0, u_k = u_{k-1} + |Q_k - Q_{k-1}|^e / d
ParamsOf(steps, centripetal) ==
  LET L == [i \in 1..Len(steps) |-> IF centripetal THEN steps[i][3] ELSE steps[i][2]]
      d == SumInts(L)
  IN TLCEval([k \in 1..(Len(steps) + 1) |-> R(SumInts([i \in 1..(k - 1) |-> L[i]]), d)])
\* Eq 9.8 (code index: kv[p+1+i] = (1/p) sum_{j=i+1..i+p} params[j], i = 0..n-p-2, 0-based)
AvgKnots(p, n, uk) ==
  Rep(Zero, p + 1) \o TLCEval([i \in 1..(n - p - 1) |-> RDiv(RSum([j \in 1..p |-> uk[i + j]]), RI(p))]) \o Rep(One, p + 1)
\* Eqs 9.68 / 9.69: r data points, n control points
ApproxKnots(p, r, n, uk) ==
  Rep(Zero, p + 1) \o
  TLCEval([j \in 1..(n - p - 1) |->
     LET jd == R(j * r, n - p) i == RFloor(jd) al == RSub(jd, RI(i)) IN
     RAdd(RMul(RSub(One, al), uk[i]), RMul(al, uk[i + 1]))]) \o Rep(One, p + 1)       \* uk is 1-based: params[i-1] = uk[i]
\* collocation matrix N[k][i] = N_{i,p}(u_k)
Colloc(p, U, uk) == LET n == NumCtrl(p, U) IN TLCEval([k \in 1..Len(uk) |-> [i \in 1..n |-> NDom(i - 1, p, U, uk[k])]])
SchoenbergWhitney(p, U, uk) == \A k \in 1..Len(uk) : RGt(NDom(k - 1, p, U, uk[k]), Zero)
\* the same conditions stated on the knots alone: u_k lies inside the support of the k-th basis function (closed at the two domain ends)
SWKnots(p, U, uk) == \A k \in 1..Len(uk) : /\ (RLt(U[k], uk[k]) \/ (k = 1 /\ uk[k] = U[1]))
                                           /\ (RLt(uk[k], U[k + p + 1]) \/ (k = Len(uk) /\ uk[k] = U[Len(U)]))
\* every knot span contains a parameter (consequence of Eq 9.69)
SpansPopulated(p, U, uk) == \A ab \in DomainSpans(p, U) : \E k \in 1..Len(uk) : RLe(ab[1], uk[k]) /\ RLe(uk[k], ab[2])
=============================================================================
