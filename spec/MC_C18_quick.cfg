SPECIFICATION Spec
CONSTANTS
  CurveP = {1,2,3}
  Seed = 1
INVARIANT T_Hull
INVARIANT T_InBBox
INVARIANT T_Ends
INVARIANT EmitC
CHECK_DEADLOCK FALSE
