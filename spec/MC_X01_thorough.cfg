SPECIFICATION Spec
CONSTANTS
  MaxU = 6
  MaxV = 7
INVARIANT T_ZigZag
INVARIANT T_Quad
INVARIANT T_QuadTree
INVARIANT T_Mean
INVARIANT T_FRange
INVARIANT T_Faces
INVARIANT T_CCW
INVARIANT EmitC
CHECK_DEADLOCK FALSE
