------------------------------ MODULE MC_C03 ------------------------------
(***************************************************************************)
(* C03 as a state machine: Init picks a degree and a knot vector from the  *)
(* lattice, the action Eval(u) evaluates every definition and every        *)
(* transcription at one parameter; KV-utility actions evaluate generate /  *)
(* normalize / check.  The invariants are the identities of the property   *)
(* on the SPEC; every transition is also emitted as one implementation     *)
(* test (expected values computed here from the DEFINITIONS).              *)
(***************************************************************************)
EXTENDS Basis, TLC, Json, IOUtils

CONSTANTS MaxP,        \* degrees 1..MaxP
          MaxHiP,      \* degrees above MaxP use the dyadic parameter set only
          MaxInterior, \* total number of interior knots
          KVals,       \* increasing sequence of interior knot values
          Eps,         \* offset around knots (a rational), Zero = none
          MaxGenExtra, \* generate(): nc in p+1 .. p+1+MaxGenExtra
          SpanInterior \* total interior knots of the (cheap) span-search-only family, degrees 1..3

VARIABLES c, out
vars == <<c, out>>

KValsQ == <<R(1,4), R(1,2), R(3,4)>>
KValsT == <<R(1,4), R(1,3), R(1,2), R(2,3), R(3,4)>>
Eps64  == R(1,64)
Affines == {<<RI(3), RI(0)>>, <<RI(2), RI(-1)>>, <<R(1,2), RI(1)>>} \cup {<<One, RI(2)>>, <<One, R(-1, 2)>>}      \* pure shifts: a vector of length one that does not start at 0

Degrees == 1..MaxHiP
\* thirds put 12^p into denominators: kept to degrees <= 3 (32-bit TLC integers)
KV(p) == IF p <= 3 THEN KVals ELSE KValsQ
ClampedKVs(p) == {MkClamped(p, KV(p), pat) : pat \in Patterns(p, KV(p), IF p <= MaxP THEN MaxInterior ELSE 2)}
UniformKVs(p) == IF p > 5 THEN {} ELSE {GenerateKV(p, nc, FALSE) : nc \in (p + 1)..(p + 3)}
RawKVs(p) == IF p > 3 THEN {} ELSE
   {AffineKV(U, ab[1], ab[2]) : U \in {MkClamped(p, KVals, pat) : pat \in Patterns(p, KVals, 2)}, ab \in Affines}

\* long knot vectors (9..12 distinct interior values), uniform or clustered towards one end, simple or double knots
LongVals == {[i \in 1..9 |-> R(i, 10)], [i \in 1..12 |-> R(i, 16)],
             <<R(1,2), R(5,8), R(3,4), R(13,16), R(7,8), R(29,32), R(15,16), R(31,32), R(63,64)>>,
             <<R(1,64), R(1,32), R(1,16), R(3,32), R(1,8), R(3,16), R(1,4), R(3,8), R(1,2), R(3,4)>>}
LongKVs(p) == {MkClamped(p, v, [i \in 1..Len(v) |-> IF p >= 2 /\ i % m = 0 THEN 2 ELSE 1]) : v \in LongVals, m \in {3, 20}}
SpanOnlyKVs(p) == IF p > 3 THEN {} ELSE
   ({MkClamped(p, KVals, pat) : pat \in Patterns(p, KVals, SpanInterior)} \ ClampedKVs(p)) \cup LongKVs(p)
KVCases == UNION {{[p |-> p, U |-> U, kind |-> "clamped"] : U \in ClampedKVs(p)}
                  \cup {[p |-> p, U |-> U, kind |-> "uniform"] : U \in UniformKVs(p)}
                  \cup {[p |-> p, U |-> U, kind |-> "raw"] : U \in RawKVs(p)}
                  \cup {[p |-> p, U |-> U, kind |-> "spanonly"] : U \in SpanOnlyKVs(p)} : p \in Degrees}

Dyadic8(p, U) == LET q == IF p <= 5 THEN 8 ELSE 4 IN
   {RAdd(DomLo(p, U), RMul(R(j, q), RSub(DomHi(p, U), DomLo(p, U)))) : j \in 0..q}
Around(p, U) == IF Eps = Zero \/ p > (IF Len(KVals) > 3 THEN 2 ELSE 3) THEN {} ELSE
   {x \in UNION {{RAdd(k, Eps), RSub(k, Eps)} : k \in Breaks(U)} : InDomain(p, U, x)}
Params(p, U, kind) ==
   {k \in Breaks(U) : InDomain(p, U, k)} \cup
   (IF p <= MaxP /\ kind # "uniform" THEN SpanSamples(p, U, p) \cup (IF kind = "clamped" THEN Around(p, U) ELSE {})
    ELSE IF kind = "uniform" THEN SpanSamples(p, U, 1) ELSE Dyadic8(p, U))

Init == /\ c \in KVCases \cup {[p |-> p, U |-> <<>>, kind |-> "util"] : p \in 1..MaxHiP}
        /\ out = [op |-> "init"]

MaxOrd(p) == IF p <= 4 THEN p + 1 ELSE 3   \* order-7 derivatives exceed 2^31 on this lattice
Eval(u) ==
  LET p == c.p  U == c.U  nc == NumCtrl(p, U)
      sp == SpanDef(p, U, nc, u)
  IN /\ out.op = "init" /\ c.kind \notin {"util", "spanonly"}
     /\ out' = [op |-> "eval", u |-> u, nc |-> nc,
                span |-> sp,
                unique |-> SpanUnique(p, U, nc, u),
                lin |-> FindSpanLinear(p, U, nc, u),
                bin |-> FindSpanBinary(p, U, nc, u),
                mult |-> Mult(u, U),
                Nact |-> ActiveN(p, U, u),
                Nbf |-> BasisFuns(p, U, sp, u),
                Nall |-> AllBasisFuns(p, U, sp, u),
                Nfull |-> [i \in 1..nc |-> NDom(i - 1, p, U, u)],
                Ncdb |-> IF c.kind = "clamped" THEN [i \in 1..nc |-> N(i - 1, p, U, u)] ELSE <<>>,
                D |-> [k \in 1..(MaxOrd(p) + 1) |-> ActiveDN(p, U, u, k - 1)]]
     /\ UNCHANGED c

\* span search only, on a much larger family of multiplicity patterns (no rational arithmetic needed)
EvalSpan(u) ==
  LET p == c.p  U == c.U  nc == NumCtrl(p, U) IN
  /\ out.op = "init" /\ c.kind = "spanonly"
  /\ out' = [op |-> "span", u |-> u, nc |-> nc, span |-> SpanDef(p, U, nc, u), unique |-> SpanUnique(p, U, nc, u),
             lin |-> FindSpanLinear(p, U, nc, u), bin |-> FindSpanBinary(p, U, nc, u), mult |-> Mult(u, U)]
  /\ UNCHANGED c
\* list version of the span search: every ordering of three parameters (lowest, middle, highest of the parameter set)
ASpans(perm) ==
  LET p == c.p  U == c.U  nc == NumCtrl(p, U)
      S == SortedRats(Params(p, U, c.kind))
      three == <<S[1], S[(Len(S) + 1) \div 2], S[Len(S)]>>
      lst == [i \in 1..3 |-> three[perm[i]]] \o <<three[perm[1]]>>
  IN /\ out.op = "init" /\ c.kind \in {"clamped", "uniform"} /\ p <= 3
     /\ out' = [op |-> "spans", nc |-> nc, us |-> lst, spans |-> [i \in 1..Len(lst) |-> SpanDef(p, U, nc, lst[i])]]
     /\ UNCHANGED c
\* knot-vector utilities
Generate(nc, clamped) ==
  /\ out.op = "init" /\ c.kind = "util"
  /\ LET U == GenerateKV(c.p, nc, clamped) IN
     out' = [op |-> "generate", nc |-> nc, clamped |-> clamped, U |-> U,
             check |-> CheckKV(c.p, U, nc), len |-> Len(U),
             m0 |-> Mult(U[1], U), m1 |-> Mult(Last(U), U)]
  /\ UNCHANGED c
Normalize(ab) ==
  /\ out.op = "init" /\ c.kind = "clamped" /\ c.p <= 3
  /\ LET W == AffineKV(c.U, ab[1], ab[2]) IN
     out' = [op |-> "normalize", U |-> W, norm |-> NormalizeKV(W)]
  /\ UNCHANGED c
\* check(): the vector itself, a vector with one descent, wrong lengths
CheckOp(variant) ==
  /\ out.op = "init" /\ c.kind = "clamped" /\ c.p <= 3 /\ NumCtrl(c.p, c.U) >= c.p + 2
  /\ LET U == c.U  nc == NumCtrl(c.p, U)
         W == CASE variant = "ok" -> U
                [] variant = "descent" -> [U EXCEPT ![c.p + 2] = RSub(U[c.p + 1], R(1, 64))]
                [] variant = "short" -> Tail(U)
                [] variant = "long" -> U \o <<Last(U)>>
     IN out' = [op |-> "check", U |-> W, nc |-> nc, variant |-> variant, ok |-> CheckKV(c.p, W, nc)]
  /\ UNCHANGED c

\* one descent at EVERY position of the vector in turn (the first and the last pair included)
CheckDescent(i) ==
  /\ out.op = "init" /\ c.kind = "clamped" /\ c.p <= 3 /\ NumCtrl(c.p, c.U) >= c.p + 2 /\ i \in 2..Len(c.U)
  /\ LET W == [c.U EXCEPT ![i] = RSub(c.U[i - 1], R(1, 64))] IN
     out' = [op |-> "check", U |-> W, nc |-> NumCtrl(c.p, c.U), variant |-> "descent", pos |-> i, ok |-> CheckKV(c.p, W, NumCtrl(c.p, c.U))]
  /\ UNCHANGED c

Perms3 == {q \in [1..3 -> 1..3] : {q[1], q[2], q[3]} = {1, 2, 3}}
Next == \/ c.kind \notin {"util", "spanonly"} /\ \E u \in Params(c.p, c.U, c.kind) : Eval(u)
        \/ c.kind \in {"clamped", "uniform"} /\ \E q \in Perms3 : ASpans(q)
        \/ c.kind = "spanonly" /\ \E u \in {k \in Breaks(c.U) : TRUE} \cup SpanSamples(c.p, c.U, 1) : EvalSpan(u)
        \/ c.kind = "util" /\ \E nc \in (c.p + 1)..(c.p + 1 + MaxGenExtra) : \E cl \in BOOLEAN : Generate(nc, cl)
        \/ c.kind = "clamped" /\ \E ab \in Affines : Normalize(ab)
        \/ c.kind = "clamped" /\ \E v \in {"ok", "descent", "short", "long"} : CheckOp(v)
        \/ c.kind = "clamped" /\ \E i \in 2..Len(c.U) : CheckDescent(i)
Spec == Init /\ [][Next]_vars

\* ---- identities of the property, on the specification --------------------
IsEval == out.op = "eval"
T_SpanUnique == out.op \in {"eval", "span"} => out.unique
T_SpanAlgos  == out.op \in {"eval", "span"} => out.lin = out.span /\ out.bin = out.span
T_BasisFuns  == IsEval => out.Nbf = out.Nact
T_NonNeg     == IsEval => \A j \in 1..Len(out.Nact) : RGe(out.Nact[j], Zero)
T_Unity      == IsEval => RSum(out.Nact) = One
T_Local      == IsEval => \A i \in 1..out.nc :
                   out.Nfull[i] = (IF i - 1 >= out.span - c.p /\ i - 1 <= out.span THEN out.Nact[i - (out.span - c.p)] ELSE Zero)
T_CoxDeBoor  == IsEval /\ c.kind = "clamped" => out.Ncdb = out.Nfull
T_AllDegrees == IsEval => /\ out.Nall[c.p + 1] = out.Nact
                          /\ \A i \in 1..(c.p + 1) : RSum(out.Nall[i]) = One
T_DerZero    == IsEval => /\ out.D[1] = out.Nact
                          /\ \A k \in 2..Len(out.D) : RSum(out.D[k]) = Zero
                          /\ c.p <= 4 => \A j \in 1..(c.p + 1) : out.D[c.p + 2][j] = Zero
T_Generate   == out.op = "generate" =>
                   /\ out.check /\ out.len = out.nc + c.p + 1 /\ ValidKV(out.U)
                   /\ out.U[1] = Zero /\ Last(out.U) = One
                   /\ out.clamped => out.m0 = c.p + 1 /\ out.m1 = c.p + 1
                   /\ ~out.clamped => out.m0 = 1 /\ out.m1 = 1
T_Normalize  == out.op = "normalize" => out.norm = c.U
T_Check      == out.op = "check" => (out.ok <=> out.variant = "ok")

Emit == out.op # "init" => PrintT("CASE " \o ToJson([c |-> c, out |-> out]))
=============================================================================
