SPECIFICATION Spec
CONSTANTS
  MaxP = 8
  MaxNum = 4
  CurveP = {1,2,3}
  Seed = 1
INVARIANT T_Elevate
INVARIANT T_Reduce
INVARIANT T_ElevateCurve
INVARIANT Emit
CHECK_DEADLOCK FALSE
