------------------------------ MODULE MC_C12c ------------------------------
(* C12, containers: histories of container reads, element additions,        *)
(* in-place edits of contained elements and container sampling changes.      *)
(* Abstract state: the version (number of edits) of every contained element. *)
(* An aggregate view is a function of <<versions, sampling>> only.           *)
EXTENDS Integers, Sequences, TLC, Json
CONSTANTS MaxElems, Depth
VARIABLES ver, samp, hist
vars == <<ver, samp, hist>>
Init == ver = <<0>> /\ samp = 0 /\ hist = <<>>
Step(rec) == hist' = Append(hist, rec)
CRead(v) == Step([a |-> "c_read", v |-> v]) /\ UNCHANGED <<ver, samp>>
CAdd == Len(ver) < MaxElems /\ ver' = Append(ver, 0) /\ Step([a |-> "c_add"]) /\ UNCHANGED samp
CEdit(i) == ver' = [ver EXCEPT ![i] = @ + 1] /\ Step([a |-> "c_edit", i |-> i]) /\ UNCHANGED samp
CSample == samp' = samp + 1 /\ samp < 2 /\ Step([a |-> "c_sample", n |-> 3 + samp]) /\ UNCHANGED ver
Next == /\ Len(hist) < Depth
        /\ \/ \E v \in {"evalpts", "bbox"} : CRead(v)
           \/ CAdd
           \/ \E i \in 1..Len(ver) : CEdit(i)
           \/ CSample
Spec == Init /\ [][Next]_vars
\* the aggregate depends only on the abstract state: two histories reaching the same <<ver, samp>> must report the same views
T_Types == Len(ver) \in 1..MaxElems /\ \A i \in 1..Len(ver) : ver[i] >= 0
Emit == hist # <<>> => PrintT("CASE " \o ToJson([hist |-> hist, ver |-> ver, samp |-> samp]))
=============================================================================
