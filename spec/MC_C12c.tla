------------------------------ MODULE MC_C12c ------------------------------
(* C12, containers: histories of container reads, element additions,        *)
(* in-place edits of contained elements and container sampling changes      *)
(* (all directions at once, or one direction of a surface / volume          *)
(* container).  Abstract state: the version (number of edits) of every      *)
(* contained element and the sample size per direction.  An aggregate view  *)
(* is a function of <<versions, sampling>> only.                            *)
EXTENDS Integers, Sequences, TLC, Json
CONSTANTS MaxElems, Depth
VARIABLES ver, samp, hist
vars == <<ver, samp, hist>>
Init == ver = <<0>> /\ samp = <<5, 5, 5>> /\ hist = <<>>
Step(rec) == hist' = Append(hist, rec)
NSampling == Len(SelectSeq(hist, LAMBDA st : st.a \in {"c_sample", "c_sample_dir"}))
CRead(v) == Step([a |-> "c_read", v |-> v]) /\ UNCHANGED <<ver, samp>>
CAdd == Len(ver) < MaxElems /\ ver' = Append(ver, 0) /\ Step([a |-> "c_add"]) /\ UNCHANGED samp
CEdit(i) == ver' = [ver EXCEPT ![i] = @ + 1] /\ Step([a |-> "c_edit", i |-> i]) /\ UNCHANGED samp
\* container.sample_size = n
CSample(n) == NSampling < 2 /\ samp # <<n, n, n>> /\ samp' = <<n, n, n>> /\ Step([a |-> "c_sample", n |-> n]) /\ UNCHANGED ver
\* container.sample_size_u / _v / _w = n (surface and volume containers)
CSampleDir(d, n) == NSampling < 2 /\ samp[d] # n /\ samp' = [samp EXCEPT ![d] = n] /\ Step([a |-> "c_sample_dir", d |-> d, n |-> n]) /\ UNCHANGED ver
Next == /\ Len(hist) < Depth
        /\ \/ \E v \in {"evalpts", "bbox"} : CRead(v)
           \/ CAdd
           \/ \E i \in 1..Len(ver) : CEdit(i)
           \/ CSample(3 + NSampling)
           \/ \E d \in 1..3 : CSampleDir(d, 4)
Spec == Init /\ [][Next]_vars
\* the aggregate depends only on the abstract state: two histories reaching the same <<ver, samp>> must report the same views
T_Types == Len(ver) \in 1..MaxElems /\ (\A i \in 1..Len(ver) : ver[i] >= 0) /\ \A d \in 1..3 : samp[d] \in 3..5
Emit == hist # <<>> => PrintT("CASE " \o ToJson([hist |-> hist, ver |-> ver, samp |-> samp]))
=============================================================================
