------------------------------ MODULE MC_C02 ------------------------------
(* C02: derivatives.  Action Ders(prm, order) computes the table of exact   *)
(* derivatives from the DEFINITION (DN + Leibniz rule for rational shapes); *)
(* Hodograph computes the derivative shapes.                                *)
EXTENDS Hodo, Lattice, TLC, Json

CONSTANTS CurveP, CurveInt, SurfMode, RatSurfMaxOrd, RatCurveMaxOrd, AllOrders, Seed
VARIABLES sh, out
vars == <<sh, out>>

CurveSet ==
  Curves(ClampedDirs(CurveP, KQ, CurveInt), {2, 3}, BOOLEAN, Seed)
  \cup Curves(UniformDirs(CurveP \cap 1..3, 1), {2}, {FALSE}, Seed)
  \cup Curves(UniformDirs(CurveP \cap 1..2, 1), {2}, {TRUE}, Seed)
  \cup Curves(RawDirs(CurveP \cap 1..2, <<Half>>, 1), {3}, BOOLEAN, Seed)
SD1 == ClampedDirs({1, 2}, <<Half>>, 1)
SD2 == ClampedDirs({2, 3}, <<R(1,4), R(3,4)>>, 2) \cup UniformDirs({2}, 1)
SurfSet == IF SurfMode = 0 THEN {} ELSE
  IF SurfMode = 1 THEN Surfaces(SD1, SD1, {3}, BOOLEAN, Seed)
  ELSE Surfaces(SD1 \cup SD2, SD1, {3}, BOOLEAN, Seed) \cup Surfaces(SD1, SD2, {3}, BOOLEAN, Seed)
\* non-normalised surfaces whose u and v ranges differ (parameters of one direction lie outside the other direction's range)
RawU == <<2, AffineKV(MkClamped(2, <<Half>>, <<1>>), RI(3), RI(0))>>
RawV == <<1, AffineKV(MkClamped(1, <<Half>>, <<1>>), RI(2), RI(-1))>>
RawSurf == IF SurfMode = 0 THEN {} ELSE Surfaces({RawU}, {RawV}, {3}, BOOLEAN, Seed) \cup Surfaces({RawV}, {RawU}, {3}, {FALSE}, Seed)
\* surfaces with different degrees per direction, used by the hodograph action only
HD3 == <<3, MkClamped(3, <<Half>>, <<1>>)>>
HD2 == <<2, MkClamped(2, <<R(1,4), R(3,4)>>, <<1, 1>>)>>
HodoOnly == IF SurfMode = 0 THEN {} ELSE Surfaces({HD3}, {HD2}, {3}, {FALSE}, Seed) \cup Surfaces({HD2}, {HD3}, {3}, {FALSE}, Seed)
\* three distinct interior knots, single and repeated (bisection meets parameters equal to the upper knot of the tested interval)
Dense == {<<1, MkClamped(1, <<R(1,4), Half, R(3,4)>>, <<1, 1, 1>>)>>, <<2, MkClamped(2, <<R(1,4), Half, R(3,4)>>, <<1, 1, 1>>)>>,
          <<2, MkClamped(2, <<R(1,4), Half>>, <<1, 2>>)>>, <<3, MkClamped(3, <<R(1,4), Half, R(3,4)>>, <<3, 1, 2>>)>>}
DenseSet == Curves(Dense, {2}, {FALSE}, Seed)
Shapes == CurveSet \cup SurfSet \cup RawSurf \cup HodoOnly \cup DenseSet
Init == sh \in Shapes /\ out = [op |-> "init"]

MaxDeg == IF PDim(sh) = 1 THEN sh.deg[1] ELSE IMax(sh.deg[1], sh.deg[2])
\* rational derivatives of high order have huge numerators/denominators (w^(k+1)): bounded by 32-bit integers
\* For higher orders the exact HOMOGENEOUS derivatives Aw are emitted and the replay checks the defining identity
\* (w C)^(k) = A^(k) on the code's output.
RatMax == IF MaxDeg > 2 THEN 0 ELSE IF PDim(sh) = 2 THEN RatSurfMaxOrd ELSE RatCurveMaxOrd
Orders == IF AllOrders THEN 0..(MaxDeg + 2) ELSE {1, MaxDeg, MaxDeg + 2}
DOrd(order) == IF sh.rat THEN IMin(order, RatMax) ELSE order
Ders(prm, order) ==
  /\ out.op = "init"
  /\ out' = [op |-> "ders", prm |-> prm, order |-> order,
             D |-> IF PDim(sh) = 1 THEN [k \in 1..(DOrd(order) + 1) |-> Deriv(sh, prm, <<k - 1>>)]
                   ELSE [k \in 1..(DOrd(order) + 1) |-> [l \in 1..(DOrd(order) + 2 - k) |-> Deriv(sh, prm, <<k - 1, l - 1>>)]],
             Aw |-> IF ~sh.rat THEN <<>>
                    ELSE IF PDim(sh) = 1 THEN [k \in 1..(order + 1) |-> DerivH(sh, prm, <<k - 1>>)]
                    ELSE [k \in 1..(order + 1) |-> [l \in 1..(order + 2 - k) |-> DerivH(sh, prm, <<k - 1, l - 1>>)]],
             alg2 |-> IF sh.rat THEN <<>>
                      ELSE IF PDim(sh) = 1 THEN LET a == CurveDerivsAlg2(sh, prm[1], order) IN [k \in 1..(order + 1) |-> a[k - 1]]
                      ELSE LET a == SurfDerivsAlg2(sh, prm, order) IN [k \in 1..(order + 1) |-> [l \in 1..(order + 2 - k) |-> a[k - 1][l - 1]]]]
  /\ UNCHANGED sh
\* hodograph shapes exist for non-rational shapes with clamped, normalised knot vectors
HodoOK == ~sh.rat /\ \A d \in 1..PDim(sh) : Clamped(sh.deg[d], sh.kv[d]) /\ sh.kv[d][1] = Zero /\ Last(sh.kv[d]) = One /\ sh.deg[d] >= 2
Hodograph ==
  /\ out.op = "init" /\ HodoOK
  /\ out' = IF PDim(sh) = 1 THEN [op |-> "hodo", h |-> <<HodoCurve(sh)>>]
            ELSE [op |-> "hodo", h |-> <<HodoSurfU(sh), HodoSurfV(sh), HodoSurfUV(sh)>>]
  /\ UNCHANGED sh
PQ == IF PDim(sh) = 1 THEN IMin(sh.deg[1], 2) ELSE 1
Next == \/ sh \notin HodoOnly /\ \E prm \in ShapeParams(sh, PQ) : \E order \in Orders : Ders(prm, order)
        \/ Hodograph
Spec == Init /\ [][Next]_vars

\* ---- theorems ---------------------------------------------------------------
T_Alg2 == out.op = "ders" /\ ~sh.rat => out.alg2 = out.D           \* A3.3/A3.4 and A3.7/A3.8 give the derivatives
T_ZeroAboveDegree == out.op = "ders" /\ ~sh.rat =>
   IF PDim(sh) = 1 THEN \A k \in 1..(out.order + 1) : k - 1 > sh.deg[1] => out.D[k] = VZero(CDim(sh))
   ELSE \A k \in 1..(out.order + 1) : \A l \in 1..(out.order + 2 - k) :
          (k - 1 > sh.deg[1] \/ l - 1 > sh.deg[2]) => out.D[k][l] = VZero(CDim(sh))
T_Order0 == out.op = "ders" => (IF PDim(sh) = 1 THEN out.D[1] ELSE out.D[1][1]) = Point(sh, out.prm)
\* the hodograph evaluates to the first derivative at every span sample of the original
T_Hodo == out.op = "hodo" =>
   IF PDim(sh) = 1 THEN \A prm \in ShapeParams(sh, sh.deg[1]) : Point(out.h[1], prm) = Deriv(sh, prm, <<1>>)
   ELSE \A prm \in ShapeParams(sh, 1) : /\ Point(out.h[1], prm) = Deriv(sh, prm, <<1, 0>>)
                                         /\ Point(out.h[2], prm) = Deriv(sh, prm, <<0, 1>>)
                                         /\ Point(out.h[3], prm) = Deriv(sh, prm, <<1, 1>>)
Emit == out.op # "init" => PrintT("CASE " \o ToJson([sh |-> sh, out |-> out]))
=============================================================================
