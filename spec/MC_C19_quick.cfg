SPECIFICATION Spec
CONSTANTS
  Seed = 1
INVARIANT T_Tracks
INVARIANT T_Symmetric
INVARIANT T_Precision
INVARIANT EmitC
CHECK_DEADLOCK FALSE
