SPECIFICATION Spec
CONSTANTS
  Seed = 1
INVARIANT T_Tracks
INVARIANT T_Symmetric
INVARIANT EmitC
CHECK_DEADLOCK FALSE
