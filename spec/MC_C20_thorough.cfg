SPECIFICATION Spec
CONSTANTS
  RayGrid = 2
  PolyGrid = 3
  MaxPolyV = 4
  HullGrid = 3
  MaxHullN = 5
INVARIANT T_Ray
INVARIANT T_Ray2D
INVARIANT T_Hull
INVARIANT T_Poly
INVARIANT EmitC
CHECK_DEADLOCK FALSE
