SPECIFICATION Spec
INVARIANT TypeOK
CHECK_DEADLOCK FALSE
