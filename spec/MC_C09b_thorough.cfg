SPECIFICATION SpecB
CONSTANTS
  MaxGrid = 4
  Seed = 2
INVARIANT T_Inverse
INVARIANT T_Convert
INVARIANT EmitB
CHECK_DEADLOCK FALSE
