SPECIFICATION Spec
CONSTANTS
  Entries2 <- E2Q
  Entries3 <- E3Q
  MaxSeq = 2
INVARIANT T_Defining
INVARIANT T_DomImpliesLU
INVARIANT T_CrossOrth
INVARIANT EmitC
CHECK_DEADLOCK FALSE
