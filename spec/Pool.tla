-------------------------------- MODULE Pool --------------------------------
(* multiprocessing pool.map as used by SurfaceContainer.tessellate and          *)
(* voxelize: W workers repeatedly take the next chunk of task indices from a    *)
(* shared queue, compute F(task) and store the result at the task's own index.  *)
(* All interleavings: the assembled result equals the sequential map and the    *)
(* run terminates.                                                              *)
EXTENDS Integers, Sequences, FiniteSets
CONSTANTS NTasks, NWorkers, Chunk
VARIABLES next, holding, result, pc
vars == <<next, holding, result, pc>>
F(i) == (i * 7 + 3) % 11          \* any pure function of the task
Tasks == 1..NTasks
Init == /\ next = 1 /\ holding = [w \in 1..NWorkers |-> {}]
        /\ result = [i \in Tasks |-> -1] /\ pc = [w \in 1..NWorkers |-> "idle"]
Take(w) == /\ pc[w] = "idle" /\ next <= NTasks
           /\ holding' = [holding EXCEPT ![w] = {i \in Tasks : i >= next /\ i < next + Chunk}]
           /\ next' = next + Chunk /\ pc' = [pc EXCEPT ![w] = "work"] /\ UNCHANGED result
Work(w) == /\ pc[w] = "work" /\ holding[w] # {}
           /\ LET i == CHOOSE x \in holding[w] : \A y \in holding[w] : x <= y IN
              /\ result' = [result EXCEPT ![i] = F(i)]
              /\ holding' = [holding EXCEPT ![w] = @ \ {i}]
           /\ UNCHANGED <<next, pc>>
Done(w) == /\ pc[w] = "work" /\ holding[w] = {} /\ pc' = [pc EXCEPT ![w] = "idle"] /\ UNCHANGED <<next, holding, result>>
Next == \E w \in 1..NWorkers : Take(w) \/ Work(w) \/ Done(w)
Spec == Init /\ [][Next]_vars /\ \A w \in 1..NWorkers : WF_vars(Take(w) \/ Work(w) \/ Done(w))
AllDone == next > NTasks /\ \A w \in 1..NWorkers : pc[w] = "idle"
\* index-addressed assembly: whatever the schedule, the result is the sequential map
ResultIsMap == AllDone => result = [i \in Tasks |-> F(i)]
NoDoubleWork == \A a, b \in 1..NWorkers : a # b => holding[a] \cap holding[b] = {}
Terminates == <>AllDone
=============================================================================
