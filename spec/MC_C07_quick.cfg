SPECIFICATION Spec
CONSTANTS
  CurveP = {1,2,3}
  CurveInt = 3
  SurfMode = 1
  Seed = 1
INVARIANT T_Split
INVARIANT T_Decompose
INVARIANT Emit
CHECK_DEADLOCK FALSE
