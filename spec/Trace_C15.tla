----------------------------- MODULE Trace_C15 -----------------------------
(* code -> spec: meshes recorded from geomdl tessellations are validated      *)
(* against the specification's ValidTriangulation predicate, one mesh per     *)
(* initial state; the verdict for every mesh is printed.                      *)
EXTENDS Mesh, Json, IOUtils
Meshes == JsonDeserialize(IOEnv.TRACE_FILE)
VARIABLES i, verdict
Init == i \in 1..Len(Meshes) /\ verdict = "pending"
Tup(s) == [k \in 1..Len(s) |-> s[k]]
Validate ==
  /\ verdict = "pending"
  /\ LET m == Meshes[i]
         pos == [k \in 1..Len(m.pos) |-> <<m.pos[k][1], m.pos[k][2]>>]
         T == [k \in 1..Len(m.tris) |-> <<m.tris[k][1], m.tris[k][2], m.tris[k][3]>>]
     IN verdict' = IF ValidTriangulation(pos, T, m.w, m.h) THEN "valid" ELSE "invalid"
  /\ UNCHANGED i
Spec == Init /\ [][Validate]_<<i, verdict>>
Report == verdict # "pending" => PrintT("VERDICT " \o ToJson([id |-> Meshes[i].id, verdict |-> verdict]))
=============================================================================
