SPECIFICATION Spec
CONSTANTS
  MaxElems = 3
  Depth = 5
INVARIANT T_Types
INVARIANT Emit
CHECK_DEADLOCK FALSE
