SPECIFICATION Spec
CONSTANTS
  Seed = 2
INVARIANT T_ActsOnPoints
INVARIANT EmitC
CHECK_DEADLOCK FALSE
