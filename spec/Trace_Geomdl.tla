---------------------------- MODULE Trace_Geomdl ----------------------------
(***************************************************************************)
(* code -> spec: traces recorded from real geomdl objects (random drivers, *)
(* the repository's own tests run under wrappers) are validated against    *)
(* the actions of the system specification.  Every event carries the        *)
(* action name, its arguments and the projected definition AFTER the call,  *)
(* floats snapped to fractions with denominator <= DMAX (marker <<0,0>> if  *)
(* not snappable).  A trace is accepted iff every event is explained.       *)
(***************************************************************************)
EXTENDS Ops, TLC, Json, IOUtils
Traces == JsonDeserialize(IOEnv.TRACE_FILE)
DMAX == 10000
VARIABLES tid, l, obj
tvars == <<tid, l, obj>>

ToR(x) == <<x[1], x[2]>>
ToRS(s) == [i \in 1..Len(s) |-> ToR(s[i])]
ToShape(j) == [deg |-> [i \in 1..Len(j.deg) |-> j.deg[i]], size |-> [i \in 1..Len(j.size) |-> j.size[i]], rat |-> j.rat,
               kv |-> [d \in 1..Len(j.kv) |-> ToRS(j.kv[d])], P |-> [i \in 1..Len(j.P) |-> ToRS(j.P[i])]]
\* exact equality after the provably unique snap; expected values with large denominators are inconclusive
MatchR(e, x) == IF e[2] > DMAX THEN TRUE ELSE x[2] # 0 /\ ToR(x) = e
MatchS(e, xs) == Len(e) = Len(xs) /\ \A i \in 1..Len(e) : MatchR(e[i], xs[i])
MatchShape(e, j) ==
  /\ Len(e.deg) = Len(j.deg) /\ \A i \in 1..Len(e.deg) : e.deg[i] = j.deg[i]
  /\ Len(e.size) = Len(j.size) /\ \A i \in 1..Len(e.size) : e.size[i] = j.size[i]
  /\ e.rat = j.rat
  /\ \A d \in 1..Len(e.kv) : MatchS(e.kv[d], j.kv[d])
  /\ Len(e.P) = Len(j.P) /\ \A i \in 1..Len(e.P) : MatchS(e.P[i], j.P[i])
Inconclusive(e) == Cardinality({<<i, k>> \in (1..Len(e.P)) \X (1..Len(e.P[1])) : e.P[i][k][2] > DMAX})

Ev == Traces[tid].ev[l]
None == <<>>
Arg(x) == IF x = <<>> THEN None ELSE ToR(x)
\* what the specification says the definition is after the event
Expected ==
  CASE Ev.a = "insert" -> InsertKnot(obj, [d \in 1..Len(Ev.prm) |-> Arg(Ev.prm[d])], [d \in 1..Len(Ev.num) |-> Ev.num[d]]).sh
    [] Ev.a = "remove" -> RemoveDirForced(obj, Ev.d, ToR(Ev.u), Ev.r)
    [] Ev.a = "refine" -> Refine(obj, [d \in 1..Len(Ev.dens) |-> Ev.dens[d]])
    [] Ev.a = "reverse" -> ReverseCurve(obj)
    [] Ev.a = "transpose" -> Transpose(obj)
    [] Ev.a = "flip" -> Flip(obj)
    [] Ev.a = "translate" -> Translate(obj, ToRS(Ev.vec))
    [] Ev.a = "scale" -> ScaleBy(obj, ToR(Ev.f))
    [] Ev.a = "scale_weights" -> [obj EXCEPT !.P = Combine(Ctrlpts(obj), [i \in 1..Len(obj.P) |-> RMul(ToR(Ev.c), Weights(obj)[i])])]
    [] Ev.a = "read" -> obj
    [] OTHER -> obj
\* enabling conditions that the event itself reports
Consistent ==
  CASE Ev.a = "insert" -> Ev.rejected = InsertKnot(obj, [d \in 1..Len(Ev.prm) |-> Arg(Ev.prm[d])], [d \in 1..Len(Ev.num) |-> Ev.num[d]]).rejected
    [] Ev.a = "remove" -> CanRemove(obj, Ev.d, ToR(Ev.u), Ev.r)
    [] OTHER -> TRUE
\* Traces of the random drivers are strict: their removals undo earlier insertions, so they must be lossless.  Traces recorded
\* from the repository's own tests (strict = FALSE) may remove knots that are not exactly removable: the deliberate deviation
\* "RemoveForced" - knot vector and sizes are specified, the control points are not.
Strict == IF "strict" \in DOMAIN Traces[tid] THEN Traces[tid].strict ELSE TRUE
StructureOnly(e, j) ==
  /\ \A i \in 1..Len(e.size) : e.size[i] = j.size[i]
  /\ \A d \in 1..Len(e.kv) : MatchS(e.kv[d], j.kv[d])
  /\ Len(e.P) = Len(j.P)
Explained(e) ==
  /\ Consistent
  /\ IF Ev.a = "remove" /\ ~Removable(obj, Ev.d, ToR(Ev.u), Ev.r)
     THEN ~Strict /\ StructureOnly(e, Ev.post)
     ELSE MatchShape(e, Ev.post)
Step ==
  /\ l <= Len(Traces[tid].ev)
  /\ \E e \in {Expected} :
       /\ Explained(e)
       \* after a forced removal the specification adopts the recorded (unspecified) control points
       /\ obj' = IF Ev.a = "remove" /\ ~Removable(obj, Ev.d, ToR(Ev.u), Ev.r) THEN ToShape(Ev.post) ELSE e
  /\ l' = l + 1 /\ UNCHANGED tid
\* a rejected event is explained: print the specification's expectation, do not advance
Explain ==
  /\ l <= Len(Traces[tid].ev)
  /\ \E e \in {Expected} : ~Explained(e)
       /\ PrintT("MISMATCH " \o ToJson([tid |-> Traces[tid].id, l |-> l, a |-> Ev.a, consistent |-> Consistent, expected |-> e]))
  /\ l' = Len(Traces[tid].ev) + 2 /\ UNCHANGED <<tid, obj>>
Init == tid \in 1..Len(Traces) /\ l = 1 /\ obj = ToShape(Traces[tid].init)
Next == Step \/ Explain
Spec == Init /\ [][Next]_tvars
Accept == l = Len(Traces[tid].ev) + 1 => PrintT("ACCEPT " \o ToJson([tid |-> Traces[tid].id, events |-> Len(Traces[tid].ev)]))
WellFormedAlways == l <= Len(Traces[tid].ev) + 1 => WellFormed(obj)
=============================================================================
