------------------------------ MODULE MC_C04 ------------------------------
(* C04: knot insertion never changes the shape -- histories of InsertKnot   *)
(* calls (single and multi-direction, admissible and over-insertion).       *)
EXTENDS Geomdl, Lattice

CONSTANTS CurveP, CurveInt, SurfMode, VolMode, DepthCurve, DepthSurf, DepthVol, AllMulti, Seed

CurveSet == Curves(ClampedDirs(CurveP, KQ, CurveInt), {2}, BOOLEAN, Seed)
            \cup Curves(ClampedDirs(CurveP \cap {2}, KQ, 1), {3}, BOOLEAN, Seed)
SD1 == ClampedDirs({1, 2}, <<Half>>, 1)
SD2 == ClampedDirs({2, 3}, <<R(1,4), R(3,4)>>, 2)
SurfSet == IF SurfMode = 0 THEN {} ELSE
  {s \in Surfaces(SD1, IF SurfMode = 1 THEN SD1 ELSE SD1 \cup SD2, {3}, BOOLEAN, Seed) : DiffSizes(s) \/ SurfMode > 1}
VD1 == ClampedDirs({1}, <<Half>>, 1)
VD2 == ClampedDirs({1, 2}, <<Half>>, 1)
VolSet == IF VolMode = 0 THEN {} ELSE
  {s \in Volumes(VD2, VD2, IF VolMode = 1 THEN VD1 ELSE VD2, BOOLEAN, Seed) :
      DiffSizes(s) /\ (VolMode > 1 \/ (s.deg[1] = 1 /\ s.deg[2] = 2) \/ (s.deg[1] = 2 /\ s.deg[2] = 1 /\ ~s.rat))}
\* clamped but non-normalised knot vectors with a different range in every direction (objects built with normalize_kv = False)
RawU == <<2, AffineKV(MkClamped(2, <<Half>>, <<1>>), RI(3), RI(0))>>
RawV == <<1, AffineKV(MkClamped(1, <<Half>>, <<1>>), RI(2), RI(-1))>>
RawW == <<1, AffineKV(MkClamped(1, <<Half>>, <<0>>), R(1,2), RI(4))>>
RawSet == IF SurfMode = 0 THEN {} ELSE Surfaces({RawU}, {RawV}, {3}, BOOLEAN, Seed) \cup Volumes({RawV}, {RawU}, {RawW}, {FALSE}, Seed)
\* the value 0 strictly inside the range (and a knot at 0) in every branch: curve, surface u, volume v and w
RawZ == <<2, AffineKV(MkClamped(2, <<R(1,4), Half>>, <<1, 1>>), RI(4), RI(-2))>>
ZeroSet == Curves({RawZ}, {2}, BOOLEAN, Seed) \cup
           (IF SurfMode = 0 THEN {} ELSE Surfaces({RawV}, {RawU}, {3}, {FALSE}, Seed) \cup Volumes({RawW}, {RawV}, {RawU}, {FALSE}, Seed) \cup Volumes({RawW}, {RawU}, {RawV}, {FALSE}, Seed))
MCShapes == CurveSet \cup SurfSet \cup VolSet \cup RawSet \cup ZeroSet
DepthOf(s) == IF PDim(s) = 1 THEN DepthCurve ELSE IF PDim(s) = 2 THEN DepthSurf ELSE DepthVol

\* a parameter 2^-20 above an existing interior knot or the domain start (curves, first step only): a distinct knot value
Eps == R(1, 1048576)
NearArgs(s) == IF PDim(s) # 1 \/ hist # <<>> \/ s.deg[1] > 2 THEN {}
               ELSE {<<<<RAdd(k, Eps)>>, <<1>>>> : k \in {x \in Breaks(s.kv[1]) : RLt(x, DomHi(s.deg[1], s.kv[1])) /\ RLe(DomLo(s.deg[1], s.kv[1]), x)}}
IsNear(st) == st.a = "insert" /\ \E d \in 1..Len(st.prm) : st.prm[d] # None /\ st.prm[d][2] >= 1048576
Next == /\ Len(hist) < DepthOf(sh0)
        /\ \/ \E a \in InsArgs(obj, AllMulti /\ PDim(obj) < 3) : ~(hist # <<>> /\ IsNear(hist[1])) /\ AInsert(a[1], a[2])
           \/ \E a \in NearArgs(obj) : AInsert(a[1], a[2])
Spec == Init /\ [][Next]_vars

\* ---- the property, on the specification ------------------------------------------------
LastStep == hist'[Len(hist')]
\* every evaluated point unchanged (homogeneous coordinates, deg+1 samples per span of the refined shape)
\* (for the near-knot insertions the sample parameters leave TLC's integers; their result is the Boehm definition itself)
P_SameShape == [][IsNear(LastStep) \/ SameH(obj, obj')]_vars
\* knot vector gains exactly the requested copies, sorted; net grows in that direction only; rejection leaves the rest
P_Structure == [][
   LET st == LastStep IN
   \A d \in 1..PDim(obj) :
      LET asked == st.prm[d] # None /\ st.num[d] > 0
          okd == asked /\ (obj'.size[d] # obj.size[d]) IN
      /\ ValidKV(obj'.kv[d])
      /\ IF asked /\ ~st.rejected
         THEN /\ obj'.size[d] = obj.size[d] + st.num[d]
              /\ Mult(st.prm[d], obj'.kv[d]) = Mult(st.prm[d], obj.kv[d]) + st.num[d]
              /\ Len(obj'.kv[d]) = Len(obj.kv[d]) + st.num[d]
              /\ \A x \in Breaks(obj.kv[d]) \ {st.prm[d]} : Mult(x, obj'.kv[d]) = Mult(x, obj.kv[d])
         ELSE ~asked => obj'.size[d] = obj.size[d] /\ obj'.kv[d] = obj.kv[d]]_vars
\* a single-direction over-insertion is rejected and leaves the object unchanged
P_Reject == [][
   LET st == LastStep
       dirs == {d \in 1..PDim(obj) : st.prm[d] # None /\ st.num[d] > 0} IN
   /\ (st.rejected <=> \E d \in dirs : st.num[d] > obj.deg[d] - Mult(st.prm[d], obj.kv[d]))
   /\ (st.rejected /\ Cardinality(dirs) = 1) => obj' = obj]_vars
T_WellFormed == WellFormed(obj)
=============================================================================
