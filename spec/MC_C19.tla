------------------------------ MODULE MC_C19 ------------------------------
(* C19: equality of shapes is an equivalence that tracks the definition.    *)
(* Pairs (A, B): B identical, B with exactly one component perturbed by a    *)
(* lattice step, and the kind / rationality twins.                           *)
EXTENDS Ops, Lattice, TLC, Json
CONSTANTS Seed
VARIABLES a, out
vars == <<a, out>>
K2 == <<2, MkClamped(2, <<Half>>, <<1>>)>>
K3 == <<3, MkClamped(3, <<R(1,4), R(3,4)>>, <<1, 2>>)>>
B1 == <<1, MkClamped(1, <<Half>>, <<0>>)>>
L3 == <<1, MkClamped(1, <<Half>>, <<1>>)>>
Shapes == Curves({K2, K3}, {2, 3}, BOOLEAN, Seed) \cup Surfaces({L3, K2}, {B1, K2}, {3}, BOOLEAN, Seed)
          \cup Volumes({B1}, {L3}, {K2}, BOOLEAN, Seed)
Init == a \in Shapes /\ out = [op |-> "init"]
Eps == R(1, 64)
\* DEFINITION of equality: same kind, same rationality, equal degrees, sizes, knot vectors and homogeneous control points
EqDef(A, B) == PDim(A) = PDim(B) /\ A.rat = B.rat /\ A.deg = B.deg /\ A.size = B.size /\ A.kv = B.kv /\ A.P = B.P
Emit(kind, B) == out' = [op |-> "pair", kind |-> kind, B |-> B, eq |-> EqDef(a, B)] /\ UNCHANGED a
Same == out.op = "init" /\ Emit("same", a)
PCoord(i, k) == out.op = "init" /\ Emit("coord", [a EXCEPT !.P[i][k] = RAdd(@, Eps)])
\* perturb one weight keeping the unweighted point: (x w, w) -> (x (w + eps), w + eps)
Weight(i) == out.op = "init" /\ a.rat /\
   LET w == a.P[i][CDim(a)] w2 == RAdd(w, Eps) IN
   Emit("weight", [a EXCEPT !.P[i] = VScale(RDiv(w2, w), @)])
Knot(d, j) == out.op = "init" /\ RLt(RAdd(a.kv[d][j], Eps), a.kv[d][j + 1]) /\
   Emit("knot", [a EXCEPT !.kv[d][j] = RAdd(@, Eps)])
\* the whole knot vector of one direction stretched by 2 (kept in that range: normalize_kv = False)
Stretch(d) == out.op = "init" /\ Emit("kv_stretch", [a EXCEPT !.kv[d] = AffineKV(@, RI(2), Zero)])
\* user-selected comparison precision of 3 decimals: a change of 2/1000 is above the tolerance, 1/10000 below it
\* (absolute tolerance: it does not grow with the magnitude of the coordinate)
EqTol(A, B, tol) == PDim(A) = PDim(B) /\ A.rat = B.rat /\ A.deg = B.deg /\ A.size = B.size
   /\ (\A e \in 1..PDim(A) : \A x \in 1..Len(A.kv[e]) : RLt(RAbs(RSub(A.kv[e][x], B.kv[e][x])), tol))
   /\ (\A x \in 1..Len(A.P) : \A y \in 1..CDim(A) : RLt(RAbs(RSub(A.P[x][y], B.P[x][y])), tol))
Prec(i, k, delta) == out.op = "init" /\
   LET B == [a EXCEPT !.P[i][k] = RAdd(@, delta)] IN
   out' = [op |-> "pair", kind |-> "precision3", B |-> B, eq |-> EqTol(a, B, R(1, 1000)), precision |-> 3] /\ UNCHANGED a
\* same sizes, degree + 1 in one direction (knot vector gets one more end knot)
Degree(d) == out.op = "init" /\ a.size[d] >= a.deg[d] + 2 /\
   Emit("degree", [a EXCEPT !.deg[d] = @ + 1, !.kv[d] = <<Zero>> \o @])
\* rationality twin: the unit-weight NURBS form of a non-rational shape (and back)
RatTwin == out.op = "init" /\ ~a.rat /\
   Emit("rational_twin", [a EXCEPT !.rat = TRUE, !.P = Combine(a.P, Rep(One, Len(a.P)))])
\* kind twin: a curve against a surface built from the same direction data
KindTwin == out.op = "init" /\ PDim(a) = 1 /\
   Emit("kind_twin", [deg |-> <<a.deg[1], 1>>, kv |-> <<a.kv[1], <<Zero, Zero, One, One>>>>, size |-> <<a.size[1], 2>>, rat |-> a.rat,
                      P |-> TLCEval([x \in 1..(2 * a.size[1]) |-> a.P[((x - 1) \div 2) + 1]])])
Next == \/ Same \/ RatTwin \/ KindTwin
        \/ \E i \in 1..Len(a.P) : \E k \in 1..CDim(a) : PCoord(i, k)
        \/ \E i \in 1..Len(a.P) : Weight(i)
        \/ \E d \in 1..PDim(a) : \E j \in (a.deg[d] + 2)..(Len(a.kv[d]) - a.deg[d] - 1) : Knot(d, j)
        \/ \E d \in 1..PDim(a) : Degree(d)
        \/ \E d \in 1..PDim(a) : Stretch(d)
        \/ PDim(a) <= 2 /\ \E i \in 1..Len(a.P) : \E k \in 1..CDim(a) : \E dl \in {R(2, 1000), R(1, 10000)} : Prec(i, k, dl)
Spec == Init /\ [][Next]_vars
\* every perturbed or twin shape differs from A; only the identical one is equal (reflexivity)
T_Tracks == out.op = "pair" /\ out.kind # "precision3" => (out.eq <=> out.kind = "same")
T_Precision == out.op = "pair" /\ out.kind = "precision3" => (out.eq <=> EqTol(out.B, a, R(1, 1000)))
T_Symmetric == out.op = "pair" => (EqDef(a, out.B) <=> EqDef(out.B, a))
EmitC == out.op # "init" => PrintT("CASE " \o ToJson([a |-> a, out |-> out]))
=============================================================================
