SPECIFICATION Spec
CONSTANTS
  MaxPts = 6
  MaxApproxPts = 9
INVARIANT T_SW
INVARIANT T_Approx
INVARIANT T_Rows
INVARIANT EmitC
CHECK_DEADLOCK FALSE
