------------------------------ MODULE MC_C06 ------------------------------
(* C06: removing a removable knot is exact and inverts insertion.           *)
(* Histories: (insert | refine) ; remove ; [remove].  ARemove is enabled     *)
(* only for exactly removable knots (definition Removable in Ops).           *)
EXTENDS Geomdl, Lattice

CONSTANTS CurveP, CurveInt, SurfMode, VolMode, MaxRemDepth, Seed

CurveSet == Curves(ClampedDirs(CurveP, KQ, CurveInt), {2}, BOOLEAN, Seed)
SD1 == ClampedDirs({1, 2}, <<Half>>, 1)
SD2 == ClampedDirs({2, 3}, <<R(1,4), R(3,4)>>, 1)
SurfSet == IF SurfMode = 0 THEN {} ELSE
  {s \in Surfaces(SD1, IF SurfMode = 1 THEN SD1 ELSE SD1 \cup SD2, {3}, BOOLEAN, Seed) \cup
         Surfaces(IF SurfMode = 1 THEN {} ELSE SD2, SD1, {3}, BOOLEAN, Seed) : DiffSizes(s)}
VD1 == ClampedDirs({1}, <<Half>>, 1)
VD2 == ClampedDirs({1, 2}, <<Half>>, 1)
VolSet == IF VolMode = 0 THEN {} ELSE
  {s \in Volumes(VD2, VD2, IF VolMode = 1 THEN VD1 ELSE VD2, BOOLEAN, Seed) :
      DiffSizes(s) /\ (VolMode > 1 \/ (s.deg[1] = 1 /\ s.deg[2] = 2) \/ (s.deg[1] = 2 /\ s.deg[2] = 1 /\ ~s.rat))}
\* volumes with one cubic direction (removal of 2..3 copies in one call exercises several passes of A5.8 on rows of points)
C3 == <<3, MkClamped(3, <<Half>>, <<0>>)>>
L2 == <<1, MkClamped(1, <<Half>>, <<0>>)>>
L3 == <<1, MkClamped(1, <<Half>>, <<1>>)>>
C4 == <<4, MkClamped(4, <<Half>>, <<0>>)>>
VolCubic == IF VolMode = 0 THEN {} ELSE
  Volumes({C3}, {L2}, {L3}, {FALSE}, Seed) \cup Volumes({L3}, {C3}, {L2}, {TRUE}, Seed) \cup Volumes({L2}, {L3}, {C3}, {FALSE}, Seed)
  \cup Volumes({C4}, {L2}, {L3}, {FALSE}, Seed)          \* a quartic direction: several passes of the inner A5.8 loop on rows of points
\* non-normalised knot ranges with 0 strictly inside and a knot AT 0 (a parameter value that is "false" in the implementation language)
RawZ == <<2, AffineKV(MkClamped(2, <<R(1,4), Half>>, <<1, 1>>), RI(4), RI(-2))>>
RawSet == Curves({RawZ}, {2}, BOOLEAN, Seed) \cup (IF SurfMode = 0 THEN {} ELSE Surfaces({RawZ}, {L2}, {3}, {FALSE}, Seed) \cup Surfaces({L2}, {RawZ}, {3}, {TRUE}, Seed))
MCShapes == CurveSet \cup SurfSet \cup VolSet \cup VolCubic \cup RawSet

\* single-direction admissible insertions
SingleIns(s) == {a \in InsArgs(s, FALSE) :
   /\ Cardinality({d \in 1..PDim(s) : a[1][d] # None}) = 1
   /\ \A d \in 1..PDim(s) : a[1][d] # None => a[2][d] <= s.deg[d] - Mult(a[1][d], s.kv[d])}
OneDirDens(s) == {dens \in [1..PDim(s) -> 0..1] : SumInts(dens) = 1}
RemArgs(s) == UNION {{<<d, u, r>> : u \in {x \in Breaks(s.kv[d]) : RLt(DomLo(s.deg[d], s.kv[d]), x) /\ RLt(x, DomHi(s.deg[d], s.kv[d]))},
                                    r \in 1..s.deg[d]} : d \in 1..PDim(s)}
\* multi-direction admissible insertions (every selected direction at its smallest interior parameter)
MultiIns(s) == {a \in InsArgs(s, FALSE) :
   /\ Cardinality({d \in 1..PDim(s) : a[1][d] # None}) > 1
   /\ \A d \in 1..PDim(s) : a[1][d] # None => a[2][d] <= s.deg[d] - Mult(a[1][d], s.kv[d])}
Next == \/ /\ hist = <<>>
           /\ \/ \E a \in SingleIns(obj) : AInsert(a[1], a[2])
              \/ \E a \in MultiIns(obj) : AInsert(a[1], a[2])
              \/ \E dens \in OneDirDens(obj) : ARefine(dens)
        \/ /\ hist # <<>> /\ Len(hist) <= MaxRemDepth
           /\ \/ \E x \in RemArgs(obj) : ARemove(x[1], x[2], x[3])
              \* undo a multi-direction insertion in one multi-direction removal call
              \/ /\ Len(hist) = 1 /\ hist[1].a = "insert"
                 /\ Cardinality({d \in 1..PDim(obj) : hist[1].prm[d] # None}) > 1
                 /\ ARemoveMulti(hist[1].prm, hist[1].num)
Spec == Init /\ [][Next]_vars

LastStep == hist'[Len(hist')]
IsRemove == LastStep.a = "remove"
P_RemoveMulti == [][LastStep.a = "remove_multi" => SameH(obj', obj) /\ obj' = sh0]_vars
\* removal leaves every evaluated point unchanged; knot vector and net shrink by exactly r in that direction only
P_RemoveExact == [][IsRemove =>
   LET st == LastStep IN
   /\ SameH(obj', obj)
   /\ obj'.size[st.d] = obj.size[st.d] - st.r
   /\ Mult(st.u, obj'.kv[st.d]) = Mult(st.u, obj.kv[st.d]) - st.r
   /\ \A e \in 1..PDim(obj) : e # st.d => obj'.size[e] = obj.size[e] /\ obj'.kv[e] = obj.kv[e]
   /\ \A x \in Breaks(obj.kv[st.d]) \ {st.u} : Mult(x, obj'.kv[st.d]) = Mult(x, obj.kv[st.d])]_vars
\* the book's own removability test (tolerance 0) accepts every row of an exactly removable knot
P_BookTest == [][IsRemove => LET st == LastStep IN RowsRemovable(obj, st.d, st.u, st.r)]_vars
\* insert r times then remove r times restores the original control points
InvertsInsert ==
  (Len(hist) = 2 /\ hist[1].a = "insert" /\ hist[2].a = "remove"
     /\ Cardinality({d \in 1..PDim(obj) : hist[1].prm[d] # None}) = 1
     /\ hist[1].prm[hist[2].d] = hist[2].u /\ hist[1].num[hist[2].d] = hist[2].r) => obj = sh0
\* a knot inserted r times is removable r' <= r times (ARemove is enabled)
InsertedIsRemovable ==
  (Len(hist) = 1 /\ hist[1].a = "insert" /\ Cardinality({d \in 1..PDim(obj) : hist[1].prm[d] # None}) = 1) =>
     LET d == CHOOSE e \in 1..PDim(obj) : hist[1].prm[e] # None IN
     \A r \in 1..hist[1].num[d] : Removable(obj, d, hist[1].prm[d], r)
T_WellFormed == WellFormed(obj)
=============================================================================
