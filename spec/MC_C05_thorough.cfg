SPECIFICATION Spec
CONSTANTS
  Shapes0 <- MCShapes
  Acts = {"refine", "refine_helper"}
  MaxDepth = 2
  CurveP = {1,2,3}
  CurveInt = 2
  SurfMode = 2
  VolMode = 1
  MaxDens = 2
  DepthCurve = 2
  Seed = 2
INVARIANT T_WellFormed
INVARIANT Emit
PROPERTY P_SameShape
PROPERTY P_Structure
CHECK_DEADLOCK FALSE
