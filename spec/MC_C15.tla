------------------------------ MODULE MC_C15 ------------------------------
(* C15: tessellation is a valid triangulation lying on the surface.         *)
EXTENDS Mesh, Json
CONSTANTS MaxS
VARIABLES c, out
vars == <<c, out>>
Spacings(su, sv) == {s \in 1..(su - 1) : (su - 1) % s = 0 /\ (sv - 1) % s = 0}
\* a few larger lattices (sample sizes at which accumulated floating-point parameters overshoot the domain end in the code)
Extra == {[su |-> 10, sv |-> 12], [su |-> 12, sv |-> 10], [su |-> 13, sv |-> 4]}
Init == c \in ({[su |-> a, sv |-> b] : a \in 2..MaxS, b \in 2..MaxS} \cup Extra) /\ out = [op |-> "init"]
ATri(s) == /\ out.op = "init"
   /\ LET nu == NV(c.su, s) nv == NV(c.sv, s) IN
      out' = [op |-> "tri", s |-> s, nu |-> nu, nv |-> nv,
              pos |-> [k \in 1..(nu * nv) |-> VertexPos(c.su, c.sv, s, k - 1)],
              tris |-> TriMesh(c.su, c.sv, s)]
   /\ UNCHANGED c
AQuad == /\ out.op = "init" /\ c.su <= 5 /\ c.sv <= 5
   /\ out' = [op |-> "quad", quads |-> QuadMesh(c.su, c.sv)] /\ UNCHANGED c
\* polygonal trims on a 10 x 10 cell grid (lattice units: 2 per cell, so vertices at odd coordinates lie inside cells)
Trims == { << <<5, 5>>, <<15, 5>>, <<15, 15>>, <<5, 15>>, <<5, 5>> >>,
           << <<3, 3>>, <<17, 5>>, <<9, 17>>, <<3, 3>> >>,
           << <<7, 1>>, <<13, 1>>, <<13, 19>>, <<7, 19>>, <<7, 1>> >> }
\* the same loops listed clockwise: the trimmed region is the same (the winding number is -1 instead of 1)
RevSeq(q) == [i \in 1..Len(q) |-> q[Len(q) + 1 - i]]
AllTrims == Trims \cup {RevSeq(t) : t \in Trims}
ATrim(poly) == /\ out.op = "init" /\ c.su = 2 /\ c.sv = 2          \* one representative initial state
   /\ out' = [op |-> "trim", poly |-> poly, n |-> 10, unit |-> 2,
              cls |-> [a \in 1..10 |-> [b \in 1..10 |-> CellClass(2 * (a - 1), 2 * (b - 1), 2, poly)]]]
   /\ UNCHANGED c
Next == (\E s \in Spacings(c.su, c.sv) : ATri(s)) \/ AQuad \/ (\E p \in AllTrims : ATrim(p))
Spec == Init /\ [][Next]_vars
T_Valid == out.op = "tri" => ValidTriangulation(out.pos, out.tris, c.su - 1, c.sv - 1) /\ Len(out.tris) = 2 * (out.nu - 1) * (out.nv - 1)
T_TrimClasses == out.op = "trim" => \E a, b \in 1..10 : out.cls[a][b] = "inside" /\ \E a2, b2 \in 1..10 : out.cls[a2][b2] = "outside"
EmitC == out.op # "init" => PrintT("CASE " \o ToJson([c |-> c, out |-> out]))
=============================================================================
