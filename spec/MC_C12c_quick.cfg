SPECIFICATION Spec
CONSTANTS
  MaxElems = 2
  Depth = 4
INVARIANT T_Types
INVARIANT Emit
CHECK_DEADLOCK FALSE
