SPECIFICATION Spec
CONSTANTS
  Seed = 1
INVARIANT T_Extract2
INVARIANT T_Extract3
INVARIANT T_Index
INVARIANT T_View2D
INVARIANT T_Transpose
INVARIANT T_Sweep
INVARIANT EmitC
CHECK_DEADLOCK FALSE
