------------------------------ MODULE Exchange ------------------------------
(* Abstract files: what each exchange format must contain for a definition.   *)
(* Numbers are exact rationals; the adapter tokenises the real file and        *)
(* compares at the printed precision.                                          *)
EXTENDS Layout

Ones(n) == Rep(One, n)
XYZW(s) == LET C == Ctrlpts(s) W == Weights(s) IN TLCEval([i \in 1..Len(C) |-> C[i] \o <<W[i]>>])     \* (x, y, z, w), flat order
\* smesh: dimension; degrees; sizes; knot vectors; control points (x y z w) in u-row order (u index fastest); trailing "1"
SmeshFile(s) ==
  [dim |-> CDim(s) - (IF s.rat THEN 1 ELSE 0), deg |-> s.deg, size |-> s.size, kv |-> s.kv,
   rows |-> FlipCtrlpts(XYZW(s), s.size[1], s.size[2])]
\* vmesh: the same per w-layer
VmeshFile(s) ==
  LET su == s.size[1] sv == s.size[2] sw == s.size[3] A == XYZW(s) IN
  [dim |-> CDim(s) - (IF s.rat THEN 1 ELSE 0), deg |-> s.deg, size |-> s.size, kv |-> s.kv,
   rows |-> FlattenSeq([k \in 1..sw |-> FlipCtrlpts([x \in 1..(su * sv) |-> A[(k - 1) * su * sv + x]], su, sv)])]
\* text formats carry the stored control points (weighted for rational shapes)
TxtFile(s) == s.P
Txt2DFile(s) == Ctrlpts2D(s)                          \* one line per u index, columns = v index
CsvCtrlptsFile(s) == s.P
\* JSON (also YAML / cfg): per shape degrees, knot vectors, sizes, unweighted points (+ weights when rational)
JsonShape(s) == [deg |-> s.deg, kv |-> s.kv, size |-> s.size, rational |-> s.rat, points |-> Ctrlpts(s), weights |-> Weights(s)]
\* what an importer must reconstruct (importers always build rational objects): unweighted points + weights
Imported(s) == [deg |-> s.deg, kv |-> s.kv, size |-> s.size, points |-> Ctrlpts(s), weights |-> Weights(s)]
=============================================================================
