SPECIFICATION Spec
CONSTANTS
  CurveP = {1,2,3}
  CurveInt = 2
  CurveVals <- KQ
  SurfMode = 1
  VolMode = 1
  MaxNS = 4
  Seed = 1
INVARIANT T_WellFormed
INVARIANT T_Definition
INVARIANT T_Grid
INVARIANT T_Corners
INVARIANT Emit
CHECK_DEADLOCK FALSE
