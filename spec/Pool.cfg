SPECIFICATION Spec
CONSTANTS
  NTasks = 5
  NWorkers = 3
  Chunk = 2
INVARIANT ResultIsMap
INVARIANT NoDoubleWork
PROPERTY Terminates
CHECK_DEADLOCK FALSE
