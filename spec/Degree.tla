------------------------------- MODULE Degree -------------------------------
(* Degree elevation / reduction of Bezier polygons (NURBS Book Eq 5.36,      *)
(* 5.41, 5.42) and degree elevation of a B-spline curve.                      *)
EXTENDS Ops

BezierKV(p) == Rep(Zero, p + 1) \o Rep(One, p + 1)
BezShape(P) == [deg |-> <<Len(P) - 1>>, kv |-> <<BezierKV(Len(P) - 1)>>, size |-> <<Len(P)>>, rat |-> FALSE, P |-> P]
\* Eq 5.36: Q_i = sum_j C(p,j) C(t,i-j) / C(p+t,i) P_j
Elevate(P, t) ==
  LET p == Len(P) - 1 d == Len(P[1]) IN
  TLCEval([x \in 1..(p + t + 1) |->
     LET i == x - 1 IN
     VSum([y \in 1..(IMin(p, i) - IMax(0, i - t) + 1) |->
             LET j == IMax(0, i - t) + y - 1 IN VScale(R(Binom(p, j) * Binom(t, i - j), Binom(p + t, i)), P[j + 1])], d)])
\* Eqs 5.41 / 5.42 (book loop bounds): degree p -> p - 1
RECURSIVE RedLeft(_, _, _, _, _)
RedLeft(Q, p, Pr, i, last) ==   \* P_i = (Q_i - a_i P_{i-1}) / (1 - a_i), i ascending to `last`
  IF i > last THEN Pr ELSE
  LET al == R(i, p) IN
  RedLeft(Q, p, [Pr EXCEPT ![i + 1] = VScale(RInv(RSub(One, al)), VSub(Q[i + 1], VScale(al, Pr[i])))], i + 1, last)
RECURSIVE RedRight(_, _, _, _, _)
RedRight(Q, p, Pr, i, last) ==  \* P_i = (Q_{i+1} - (1 - a_{i+1}) P_{i+1}) / a_{i+1}, i descending to `last`
  IF i < last THEN Pr ELSE
  LET al == R(i + 1, p) IN
  RedRight(Q, p, [Pr EXCEPT ![i + 1] = VScale(RInv(al), VSub(Q[i + 2], VScale(RSub(One, al), Pr[i + 2])))], i - 1, last)
Reduce(Q) ==
  LET p == Len(Q) - 1 d == Len(Q[1])
      r == (p - 1) \div 2
      odd == p % 2 = 1
      P0 == [[x \in 1..p |-> VZero(d)] EXCEPT ![1] = Q[1], ![p] = Q[p + 1]]
      P1 == RedLeft(Q, p, P0, 1, IF odd THEN r - 1 ELSE r)
      P2 == RedRight(Q, p, P1, p - 2, r + 1)
  IN IF ~odd \/ p = 1 THEN P2 ELSE
     LET al == R(r, p) ar == R(r + 1, p)
         pl == VScale(RInv(RSub(One, al)), VSub(Q[r + 1], VScale(al, P2[r])))
         pr == VScale(RInv(ar), VSub(Q[r + 2], VScale(RSub(One, ar), P2[r + 2])))
     IN [P2 EXCEPT ![r + 1] = VScale(Half, VAdd(pl, pr))]

\* degree elevation of a clamped B-spline curve by t: Bezier pieces (all interior knots raised to multiplicity p),
\* elevate each piece, join, remove the p - s superfluous copies of every interior knot again
RECURSIVE RemoveAll(_, _, _)
RemoveAll(s, knots, mults) ==
  IF knots = <<>> THEN s ELSE
  LET cnt == Mult(knots[1], s.kv[1]) - mults[1] IN
  RemoveAll(IF cnt > 0 THEN RemoveDirForced(s, 1, knots[1], cnt) ELSE s, Tail(knots), Tail(mults))
ElevateCurve(s, t) ==
  LET p == s.deg[1] U == s.kv[1]
      B == BreakSeq(U)
      nseg == Len(B) - 1
      f == RefineFrom(s, 1, B, 1)                       \* every interior knot to multiplicity p
      piece(k) == Elevate([i \in 1..(p + 1) |-> f.P[(k - 1) * p + i]], t)
      q == p + t
      P2 == TLCEval([x \in 1..(nseg * q + 1) |-> IF x = nseg * q + 1 THEN piece(nseg)[q + 1]
                                                ELSE piece(((x - 1) \div q) + 1)[((x - 1) % q) + 1]])
      U2 == Rep(B[1], q + 1) \o FlattenSeq([k \in 1..(nseg - 1) |-> Rep(B[k + 1], q)]) \o Rep(B[Len(B)], q + 1)
      g == [deg |-> <<q>>, kv |-> <<U2>>, size |-> <<Len(P2)>>, rat |-> s.rat, P |-> P2]
      ik == [k \in 1..(nseg - 1) |-> B[k + 1]]
  IN RemoveAll(g, ik, [k \in 1..(nseg - 1) |-> Mult(ik[k], U) + t])
=============================================================================
