SPECIFICATION Spec
CONSTANTS
  Seed = 1
INVARIANT T_MeshRoundTrip
INVARIANT EmitC
CHECK_DEADLOCK FALSE
