------------------------------ MODULE MC_C16 ------------------------------
(* C16: linear-algebra routines satisfy their defining equations on every call, *)
(* independently of the calls made before.                                      *)
EXTENDS Linalg, Knots, TLC, Json
CONSTANTS Entries2, Entries3, MaxSeq
VARIABLES c, out
vars == <<c, out>>
E2Q == -2..2
E3Q == 0..2
E3T == -1..2
M2 == {<<<<a, b>>, <<cc, d>>>> : a \in Entries2, b \in Entries2, cc \in Entries2, d \in Entries2}
\* 3x3 family: first row free, rows 2-3 from a fixed menu (keeps the family small but with pivoting / zero minors)
Rows3 == {<<0, 1, 2>>, <<1, 0, 1>>, <<2, 1, 0>>, <<1, 1, 1>>, <<0, 0, 1>>, <<3, 1, -1>>, <<-1, 2, 0>>}
M3 == {<<<<a, b, cc>>, r2, r3>> : a \in Entries3, b \in Entries3, cc \in Entries3, r2 \in Rows3, r3 \in Rows3}
\* hand-picked 4x4 / 5x5 matrices: diagonally dominant, needing swaps, zero minor after pre-pivoting
M45 == {<<<<4, 1, 0, 1>>, <<1, 5, 1, 0>>, <<0, 1, 4, 2>>, <<1, 0, 1, 3>>>>,
        <<<<0, 2, 1, 0>>, <<1, 0, 0, 2>>, <<2, 1, 0, 1>>, <<0, 0, 3, 1>>>>,
        <<<<1, 2, 0, 0, 0>>, <<2, 4, 1, 0, 0>>, <<0, 1, 1, 1, 0>>, <<0, 0, 1, 2, 1>>, <<0, 0, 0, 1, 1>>>>,
        <<<<6, 1, 0, 1, 1>>, <<1, 7, 1, 0, 2>>, <<0, 1, 5, 2, 1>>, <<1, 0, 1, 6, 0>>, <<2, 1, 0, 1, 8>>>>}
\* structured 4x4 / 5x5 families: tridiagonal, arrow (fill-in during elimination), cyclic shifts of a dominant matrix (chained row swaps)
Tri(n, a, b, lo) == [i \in 1..n |-> [j \in 1..n |-> IF i = j THEN a ELSE IF j = i + 1 THEN b ELSE IF i = j + 1 THEN lo ELSE 0]]
Arrow(n, a, b) == [i \in 1..n |-> [j \in 1..n |-> IF i = j THEN a + i ELSE IF i = 1 \/ j = 1 \/ i = n THEN b ELSE 0]]
Shift(A, k) == [i \in 1..Len(A) |-> A[(((i + k) - 1) % Len(A)) + 1]]
MS == {Tri(n, a, b, lo) : n \in {4, 5}, a \in {2, 3}, b \in {-1, 1}, lo \in {1, 2}}
      \cup {Arrow(n, a, b) : n \in {4, 5}, a \in {2, 5}, b \in {1, -2}}
      \cup {Shift(Tri(n, 4, 1, -1), k) : n \in {4, 5}, k \in 1..3} \cup {Shift(Arrow(4, 3, 1), k) : k \in 1..3}
NonSing(S) == {A \in S : Det(A) # 0}
RHS1(n) == [i \in 1..n |-> <<i, 1>>]
RHS(n) == {RHS1(n), [i \in 1..n |-> <<((i * i) % 3) - 1, 2 - i>>]}
SeqMats == {<<<<0, 1>>, <<1, 0>>>>, <<<<2, 1>>, <<1, 3>>>>, <<<<1, 2>>, <<3, 4>>>>}
Calls == {"identity", "pivot", "inverse", "determinant", "lu_factor"}
Init == /\ c \in {[kind |-> "matrix", A |-> A] : A \in NonSing(M2) \cup NonSing(M3) \cup NonSing(M45) \cup NonSing(MS)}
               \cup {[kind |-> "sequence", n |-> n] : n \in 2..MaxSeq} \cup {[kind |-> "helpers"]}
        /\ out = [op |-> "init"]
Facts(A) == [det |-> Det(A), inv |-> Inverse(A), dd |-> DiagDominant(A), lmn |-> LeadingMinorsNonzero(A), swap |-> NeedsSwap(A), ppzm |-> ~LeadingMinorsNonzero(PrePivot(A))]
AMatrix(B) == /\ out.op = "init" /\ c.kind = "matrix"
              /\ out' = [op |-> "matrix", B |-> B, x |-> Solve(c.A, B)] @@ Facts(c.A) /\ UNCHANGED c
\* call sequences: each element <<routine, matrix>>; the expected answer of a call is a function of its arguments only
ASequence(calls) == /\ out.op = "init" /\ c.kind = "sequence"
   /\ out' = [op |-> "sequence", calls |-> calls,
              facts |-> [i \in 1..Len(calls) |-> [A |-> calls[i][2], det |-> Det(calls[i][2]), inv |-> Inverse(calls[i][2]),
                                                  x |-> Solve(calls[i][2], RHS1(2))]]]
   /\ UNCHANGED c
\* matrix times a flat vector (wide, tall and square matrices)
MV(M, v) == [i \in 1..Len(M) |-> SumInts([k \in 1..Len(v) |-> M[i][k] * v[k]])]
MVCases == << <<<<<<1, 2, 3>>, <<4, 5, 6>>>>, <<1, -2, 3>>>>, <<<<<<1, 2>>, <<3, 4>>, <<5, -6>>>>, <<2, -1>>>>, <<<<<<2, 0, 1>>, <<-1, 3, 2>>, <<4, 1, -2>>>>, <<1, 2, -3>>>>,
             <<<<<<1, 2, 3, 4>>>>, <<1, 1, -1, 2>>>> >>
LinCases == << <<R(5, 4), R(-1, 2), 4>>, <<One, Zero, 3>>, <<RI(-1), RI(-3), 5>>, <<RI(2), RI(2), 3>>, <<RI(-2), R(-1, 2), 2>>, <<Zero, One, 7>> >>
HV == <<<<1, 2, 3>>, <<-2, 0, 5>>, <<3, 4>>, <<-1, 2>>, <<0, 0, 2>>, <<4, -3, 0>>, <<2, 5>>>>
AHelpers == /\ out.op = "init" /\ c.kind = "helpers"
   /\ out' = [op |-> "helpers",
              binom |-> [n \in 1..9 |-> [k \in 1..(n + 1) |-> Binom(n, k - 1)]],
              linspace |-> [num \in 1..6 |-> Linspace(R(-1, 2), R(5, 4), num)],
              \* other intervals: decreasing, negative, degenerate
              linspace2 |-> [i \in 1..Len(LinCases) |-> [a |-> LinCases[i][1], b |-> LinCases[i][2], num |-> LinCases[i][3],
                                                         res |-> Linspace(LinCases[i][1], LinCases[i][2], LinCases[i][3])]],
              matmul |-> MatMulI(<<<<1, 2, 3>>, <<4, 5, 6>>>>, <<<<1, 0>>, <<2, -1>>, <<0, 3>>>>),
              cross |-> VCross(VInts(<<1, 2, 3>>), VInts(<<-2, 0, 5>>)), dot |-> VDot(VInts(<<1, 2, 3>>), VInts(<<-2, 0, 5>>)),
              norm2 |-> VNorm2(VInts(<<3, 4, 12>>)),
              matvec |-> [i \in 1..Len(MVCases) |-> [M |-> MVCases[i][1], v |-> MVCases[i][2], res |-> MV(MVCases[i][1], MVCases[i][2])]],
              \* every ordered pair of a small family of planar and spatial vectors (a planar vector is (x, y, 0))
              pairs |-> [i \in 1..(Len(HV) * Len(HV)) |->
                          LET a == HV[((i - 1) \div Len(HV)) + 1]  b == HV[((i - 1) % Len(HV)) + 1]
                              pad(v) == IF Len(v) = 2 THEN VInts(v) \o <<Zero>> ELSE VInts(v) IN
                          [a |-> a, b |-> b, cross |-> VCross(pad(a), pad(b)), dot |-> IF Len(a) = Len(b) THEN VDot(VInts(a), VInts(b)) ELSE Zero,
                           norm2 |-> VNorm2(VInts(a))]]]
   /\ UNCHANGED c
T_CrossOrth == out.op = "helpers" => \A i \in 1..Len(out.pairs) :
   LET r == out.pairs[i]  pad(v) == IF Len(v) = 2 THEN VInts(v) \o <<Zero>> ELSE VInts(v) IN
   VDot(r.cross, pad(r.a)) = Zero /\ VDot(r.cross, pad(r.b)) = Zero
CallSeqs(n) == [1..n -> Calls \X SeqMats]
Next == \/ c.kind = "matrix" /\ \E B \in {b \in RHS(Len(c.A)) : TRUE} : AMatrix(B)
        \/ c.kind = "sequence" /\ \E s \in CallSeqs(c.n) : ASequence(s)
        \/ AHelpers
Spec == Init /\ [][Next]_vars
\* the defining equations hold for the exact answers; diagonal dominance implies non-zero leading minors (plain LU exists)
T_Defining == out.op = "matrix" =>
  /\ \A i \in 1..Len(c.A) : \A col \in 1..Len(out.B[1]) :
        RSum([j \in 1..Len(c.A) |-> RMul(RI(c.A[i][j]), out.x[j][col])]) = RI(out.B[i][col])
  /\ \A i, j \in 1..Len(c.A) : RSum([k \in 1..Len(c.A) |-> RMul(RI(c.A[i][k]), out.inv[k][j])]) = (IF i = j THEN One ELSE Zero)
\* pivoting on the un-eliminated matrix does NOT guarantee non-zero pivots (the cases tagged ppzm exist): documented finding F-16c
T_DomImpliesLU == out.op = "matrix" /\ out.dd => out.lmn
EmitC == out.op # "init" => PrintT("CASE " \o ToJson([c |-> c, out |-> out]))
=============================================================================
