------------------------------ MODULE Lattice ------------------------------
(* The bounded lattice of shapes shared by the MC_* models (DESIGN 3.2).     *)
EXTENDS Shape

KQ == <<R(1,4), R(1,2), R(3,4)>>
KT == <<R(1,4), R(1,3), R(1,2), R(2,3), R(3,4)>>
AffineMaps == {<<RI(3), RI(0)>>, <<RI(2), RI(-1)>>, <<R(1,2), RI(1)>>}

ClampedKVs(p, vals, maxInt) == {MkClamped(p, vals, pat) : pat \in Patterns(p, vals, maxInt)}
\* a "direction" is a pair <<degree, knot vector>>
ClampedDirs(ps, vals, maxInt) == UNION {{<<p, U>> : U \in ClampedKVs(p, vals, maxInt)} : p \in ps}
UniformDirs(ps, extra) == UNION {{<<p, GenerateKV(p, nc, FALSE)>> : nc \in (p + 1)..(p + 1 + extra)} : p \in ps}
RawDirs(ps, vals, maxInt) == UNION {{<<p, AffineKV(U, ab[1], ab[2])>> : U \in ClampedKVs(p, vals, maxInt), ab \in AffineMaps} : p \in ps}

Curves(dirs, dims, rats, seed) ==
  {MkShape(<<d[1]>>, <<d[2]>>, dim, rt, seed) : d \in dirs, dim \in dims, rt \in rats}
Surfaces(dirsU, dirsV, dims, rats, seed) ==
  {MkShape(<<a[1], b[1]>>, <<a[2], b[2]>>, dim, rt, seed) : a \in dirsU, b \in dirsV, dim \in dims, rt \in rats}
Volumes(dirsU, dirsV, dirsW, rats, seed) ==
  {MkShape(<<a[1], b[1], c[1]>>, <<a[2], b[2], c[2]>>, 3, rt, seed) : a \in dirsU, b \in dirsV, c \in dirsW, rt \in rats}
DiffSizes(s) == \A i, j \in 1..PDim(s) : i # j => s.size[i] # s.size[j]

\* parameter sets per direction: all knots of the domain, q+1 points per span, domain end
DirParams(p, U, q) == {k \in Breaks(U) : InDomain(p, U, k)} \cup SpanSamples(p, U, q)
ShapeParams(s, q) == ParamProduct([d \in 1..PDim(s) |-> DirParams(s.deg[d], s.kv[d], q)])
=============================================================================
