SPECIFICATION Spec
CONSTANTS
  Shapes0 <- MCShapes
  Acts = {"insert", "refine", "remove"}
  MaxDepth = 3
  CurveP = {1,2,3}
  CurveInt = 1
  SurfMode = 1
  VolMode = 1
  MaxRemDepth = 1
  Seed = 1
INVARIANT T_WellFormed
INVARIANT InvertsInsert
INVARIANT InsertedIsRemovable
INVARIANT Emit
PROPERTY P_RemoveExact
PROPERTY P_BookTest
PROPERTY P_RemoveMulti
CHECK_DEADLOCK FALSE
