------------------------------ MODULE MC_C17 ------------------------------
(* C17: results do not depend on configuration choices.  One query (shape,   *)
(* parameter) and its image under every affine knot range; the theorem is     *)
(* the affine invariance of the definition.  The configuration product        *)
(* (span search, evaluator family, normalisation, worker processes, cache     *)
(* size) is applied by the replay; Pool.tla and Cache.tla cover schedules and  *)
(* cache capacities.                                                           *)
EXTENDS Ops, Hodo, Lattice, TLC, Json
CONSTANTS CurveP, Seed
VARIABLES sh, out
vars == <<sh, out>>
\* three distinct interior knots, single and repeated (the binary span search then meets a parameter equal to the upper knot
\* of the interval it is testing)
Dense == {<<1, MkClamped(1, <<R(1,4), Half, R(3,4)>>, <<1, 1, 1>>)>>, <<2, MkClamped(2, <<R(1,4), Half, R(3,4)>>, <<1, 1, 1>>)>>,
          <<2, MkClamped(2, <<R(1,4), Half>>, <<1, 2>>)>>, <<3, MkClamped(3, <<R(1,4), Half, R(3,4)>>, <<3, 1, 2>>)>>}
CurveSet == Curves(ClampedDirs(CurveP, KQ, 2), {2}, BOOLEAN, Seed) \cup Curves(Dense, {2}, {FALSE}, Seed)
SD == ClampedDirs({1, 2}, <<R(1,4), R(3,4)>>, 1)
SurfSet == {s \in Surfaces(SD, SD, {3}, BOOLEAN, Seed) : s.size[1] # s.size[2]}
VolSet == {s \in Volumes(ClampedDirs({1, 2}, <<Half>>, 1), ClampedDirs({1, 2}, <<Half>>, 1), ClampedDirs({1}, <<Half>>, 1), {TRUE}, Seed) : DiffSizes(s)}
\* surfaces with the same knot vector in both directions (a caller may assign one list to both)
SquareSet == {s \in Surfaces(ClampedDirs({2}, <<R(1,4), R(3,4)>>, 1), ClampedDirs({2}, <<R(1,4), R(3,4)>>, 1), {3}, BOOLEAN, Seed) : s.kv[1] = s.kv[2]}
Init == sh \in CurveSet \cup SurfSet \cup VolSet \cup SquareSet /\ out = [op |-> "init"]
AffineShape(s, ab) == [s EXCEPT !.kv = [d \in 1..PDim(s) |-> AffineKV(s.kv[d], ab[1], ab[2])]]
AffinePrm(prm, ab) == [d \in 1..Len(prm) |-> RAdd(RMul(ab[1], prm[d]), ab[2])]
MaxOrd == IF sh.rat THEN 0 ELSE 2
Query(prm) ==
  /\ out.op = "init"
  /\ out' = [op |-> "query", prm |-> prm, pt |-> Point(sh, prm),
             ders |-> IF PDim(sh) = 1 THEN [k \in 1..(MaxOrd + 1) |-> Deriv(sh, prm, <<k - 1>>)]
                      ELSE IF PDim(sh) = 2 THEN [k \in 1..(MaxOrd + 1) |-> [l \in 1..(MaxOrd + 2 - k) |-> Deriv(sh, prm, <<k - 1, l - 1>>)]]
                      ELSE <<>>,
             \* the last two are pure shifts: ranges of length one that do not start at 0
             images |-> [x \in 1..5 |-> LET ab == << <<RI(3), RI(0)>>, <<RI(2), RI(-1)>>, <<R(1,2), RI(1)>>, <<One, RI(2)>>, <<One, R(-1, 2)>> >>[x] IN
                          [a |-> ab[1], b |-> ab[2], shape |-> AffineShape(sh, ab), prm |-> AffinePrm(prm, ab)]]]
  /\ UNCHANGED sh
Maps3 == <<<<RI(3), RI(0)>>, <<RI(2), RI(-1)>>, <<R(1,2), RI(1)>>>>
\* a knot is inserted r times in direction d and removed again: under every knot range the object is back at its definition,
\* the other directions never change
RoundTrip(d, u, r) ==
  /\ out.op = "init" /\ PDim(sh) = 2 /\ d <= 2 /\ r <= sh.deg[d] - Mult(u, sh.kv[d])
  /\ out' = [op |-> "roundtrip", d |-> d, u |-> u, r |-> r, mid |-> InsertDir(sh, d, u, r),
             \* refined in both directions (the knot vectors of a square surface are equal again), then removed from direction d only
             both |-> InsertDir(InsertDir(sh, 1, u, r), 2, u, r), oneleft |-> InsertDir(sh, 3 - d, u, r),
             images |-> [x \in 1..3 |-> [a |-> Maps3[x][1], b |-> Maps3[x][2], shape |-> AffineShape(sh, Maps3[x]),
                                         mid |-> AffineShape(InsertDir(sh, d, u, r), Maps3[x]),
                                         both |-> AffineShape(InsertDir(InsertDir(sh, 1, u, r), 2, u, r), Maps3[x]),
                                         oneleft |-> AffineShape(InsertDir(sh, 3 - d, u, r), Maps3[x]),
                                         u |-> RAdd(RMul(Maps3[x][1], u), Maps3[x][2])]]]
  /\ UNCHANGED sh
Next == \/ \E prm \in ShapeParams(sh, 1) : Query(prm)
        \/ \E d \in 1..2 : \E r \in 1..2 : RoundTrip(d, Half, r)
Spec == Init /\ [][Next]_vars
\* affine invariance of the definition: N_{aU+b}(a u + b) = N_U(u); derivatives scale by a^(-k)
T_Affine == out.op = "query" => \A x \in 1..5 :
   LET im == out.images[x] IN
   /\ Point(im.shape, im.prm) = out.pt
   /\ PDim(sh) = 1 /\ ~sh.rat => \A k \in 1..(MaxOrd + 1) : Deriv(im.shape, im.prm, <<k - 1>>) = VScale(RInv(RPow(im.a, k - 1)), out.ders[k])
T_RoundTrip == out.op = "roundtrip" => /\ RemoveDirForced(out.mid, out.d, out.u, out.r) = sh /\ SameH(sh, out.mid)
                                       /\ RemoveDirForced(out.both, out.d, out.u, out.r) = out.oneleft
EmitC == out.op # "init" => PrintT("CASE " \o ToJson([sh |-> sh, out |-> out]))
=============================================================================
