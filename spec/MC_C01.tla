------------------------------ MODULE MC_C01 ------------------------------
(***************************************************************************)
(* C01: evaluation entry points against the definition.  Init picks a      *)
(* shape of the lattice; actions: EvalSingle(prm), EvalGrid(ns),           *)
(* EvalList(prms).  Expected values are Point / SampleGrid (definitions).  *)
(***************************************************************************)
EXTENDS Lattice, TLC, Json

CONSTANTS CurveP, CurveInt, CurveVals, SurfMode, VolMode, MaxNS, Seed
VARIABLES sh, out
vars == <<sh, out>>

CurveSet ==
  Curves(ClampedDirs(CurveP, CurveVals, CurveInt), {2, 3}, BOOLEAN, Seed)
  \cup Curves(UniformDirs(CurveP, 2), {2}, BOOLEAN, Seed)
  \cup Curves(RawDirs(CurveP \cap 1..2, KQ, 1), {3}, BOOLEAN, Seed)
SD1 == ClampedDirs({1, 2}, <<R(1,4), R(3,4)>>, 1)   \* includes equal degree and size with different knots
SD2 == ClampedDirs({2, 3}, <<R(1,4), R(3,4)>>, 2) \cup UniformDirs({2}, 1) \cup RawDirs({2}, <<Half>>, 1)
SurfSet == IF SurfMode = 0 THEN {} ELSE
  {s \in Surfaces(SD1, IF SurfMode = 1 THEN SD1 ELSE SD2, {3}, BOOLEAN, Seed) \cup
         Surfaces(IF SurfMode = 1 THEN {} ELSE SD2, SD1, {3}, BOOLEAN, Seed) : TRUE}
VD1 == ClampedDirs({1}, <<Half>>, 1)
VD2 == ClampedDirs({1, 2}, <<Half>>, 1)
VolSet == IF VolMode = 0 THEN {} ELSE
  {s \in Volumes(VD2, VD2, IF VolMode = 1 THEN VD1 ELSE VD2 \cup UniformDirs({1}, 1), BOOLEAN, Seed) :
       DiffSizes(s) \/ (VolMode > 1 /\ Cardinality(RangeOf(s.size)) >= 2)}
\* long, strongly non-uniform knot vectors (more than 8 spans)
LongDirs == {<<p, MkClamped(p, v, [i \in 1..Len(v) |-> IF p = 2 /\ i % 4 = 0 THEN 2 ELSE 1])>> :
               p \in {1, 2}, v \in {<<R(1,2), R(5,8), R(3,4), R(13,16), R(7,8), R(29,32), R(15,16), R(31,32), R(63,64)>>,
                                      <<R(1,64), R(1,32), R(1,16), R(3,32), R(1,8), R(3,16), R(1,4), R(3,8), R(1,2), R(3,4)>>}}
LongSet == Curves(LongDirs, {2}, BOOLEAN, Seed)
\* non-normalised volumes / surfaces whose directions have different parametric ranges
RawU == <<2, AffineKV(MkClamped(2, <<Half>>, <<1>>), RI(3), RI(0))>>
RawV == <<1, AffineKV(MkClamped(1, <<Half>>, <<1>>), RI(2), RI(-1))>>
RawW == <<1, AffineKV(MkClamped(1, <<Half>>, <<0>>), R(1,2), RI(4))>>
RawSet == IF VolMode = 0 THEN {} ELSE Volumes({RawV}, {RawU}, {RawW}, BOOLEAN, Seed) \cup Surfaces({RawU}, {RawV}, {3}, {TRUE}, Seed)
\* cubic curves with three interior knots (pairs of knot vectors that agree on all but one local knot), and rational shapes whose
\* weights are 1/2, 3/2, 1/2, ... (their sum equals the number of control points although they are not all 1)
Cubic3 == Curves(ClampedDirs({3}, KQ, 3), {2}, BOOLEAN, Seed)
HalfW(s) == [s EXCEPT !.P = Combine(Ctrlpts(s), [i \in 1..Len(s.P) |-> IF i % 2 = 1 THEN R(1, 2) ELSE R(3, 2)])]
HalfSet == {HalfW(s) : s \in {x \in Curves(ClampedDirs({2, 3}, KQ, 1), {2}, {TRUE}, Seed) \cup Surfaces(SD1, SD1, {3}, {TRUE}, Seed) \cup VolSet :
                                x.rat /\ Len(x.P) % 2 = 0}}
\* all weights equal but not 1 (the shape is that of the unweighted net)
EqualW(s) == [s EXCEPT !.P = Combine(Ctrlpts(s), [i \in 1..Len(s.P) |-> R(5, 2)])]
EqualSet == {EqualW(s) : s \in {x \in Curves(ClampedDirs({2}, KQ, 1), {2}, {TRUE}, Seed) \cup Surfaces(VD2, VD1, {3}, {TRUE}, Seed) \cup Volumes(VD1, VD2, VD1, {TRUE}, Seed) : x.rat}}
\* one unclamped (uniform) direction at a time: the domain is a proper part of the knot range in that direction only
U1 == UniformDirs({1}, 1)
U2 == UniformDirs({2}, 1)
UnclampedSet == IF VolMode = 0 THEN {} ELSE
  Surfaces(U2, VD1, {3}, {FALSE}, Seed) \cup Surfaces(VD1, U2, {3}, {TRUE}, Seed)
  \cup Volumes(U1, VD1, VD2, {FALSE}, Seed) \cup Volumes(VD1, U1, VD2, {FALSE}, Seed) \cup Volumes(VD2, VD1, U1, {FALSE}, Seed)
Shapes == CurveSet \cup SurfSet \cup VolSet \cup LongSet \cup RawSet \cup Cubic3 \cup HalfSet \cup UnclampedSet \cup (IF VolMode = 0 THEN {} ELSE EqualSet)

Init == sh \in Shapes /\ out = [op |-> "init"]

PQ == IF PDim(sh) = 1 THEN sh.deg[1] ELSE 1
EvalSingle(prm) ==
  /\ out.op = "init"
  /\ out' = [op |-> "single", prm |-> prm, pt |-> Point(sh, prm), ptw |-> PointH(sh, prm), act |-> ActiveIdx(sh, prm)]
  /\ UNCHANGED sh
NSs == IF PDim(sh) = 1 THEN {<<n>> : n \in 2..MaxNS}
       ELSE IF PDim(sh) = 2 THEN {<<a, b>> \in (2..MaxNS) \X (2..MaxNS) : a # b \/ a = 3}
       ELSE {<<2, 3, 2>>, <<3, 2, 4>>, <<2, 2, 3>>}
EvalGrid(ns) ==
  /\ out.op = "init"
  /\ LET G == GridParams(sh, ns) IN
     out' = [op |-> "grid", ns |-> ns, n |-> Len(G), first |-> G[1], last |-> G[Len(G)],
             pts |-> [x \in 1..Len(G) |-> Point(sh, G[x])]]
  /\ UNCHANGED sh
\* list evaluation: in-domain parameters interleaved with out-of-range ones, which are
\* documented to be skipped when the knot vectors are normalised
Normalised(s) == \A d \in 1..PDim(s) : s.kv[d][1] = Zero /\ Last(s.kv[d]) = One
OutPrm == [d \in 1..PDim(sh) |-> IF d = 1 THEN R(5, 4) ELSE Half]
OutPrm2 == [d \in 1..PDim(sh) |-> IF d = PDim(sh) THEN R(-1, 4) ELSE Half]
EvalList ==
  /\ out.op = "init" /\ Normalised(sh)
  /\ LET dom == Domain(sh)
         lo == [d \in 1..PDim(sh) |-> dom[d][1]]
         hi == [d \in 1..PDim(sh) |-> dom[d][2]]
         mid == [d \in 1..PDim(sh) |-> RMid(dom[d][1], dom[d][2])]
         prms == <<lo, OutPrm, mid, OutPrm2, hi>>
     IN out' = [op |-> "list", prms |-> prms, pts |-> <<Point(sh, lo), Point(sh, mid), Point(sh, hi)>>]
  /\ UNCHANGED sh
\* the diagonal u = v (= w) over the union of all directions' parameter sets
Diagonal == LET S == UNION {DirParams(sh.deg[d], sh.kv[d], PQ) : d \in 1..PDim(sh)} IN
   {prm \in {[d \in 1..PDim(sh) |-> x] : x \in S} : InDom(sh, prm)}
Next == \/ \E prm \in ShapeParams(sh, PQ) \cup (IF PDim(sh) > 1 THEN Diagonal ELSE {}) : EvalSingle(prm)
        \/ \E ns \in NSs : EvalGrid(ns)
        \/ EvalList
Spec == Init /\ [][Next]_vars

\* ---- theorems on the specification ------------------------------------------
\* the tensor sum over ALL control points with the global basis equals the local form
PointFull(s, prm) ==
  LET t == D3(s) q == P3(prm) cd == CDim(s)
      Nd(d, i) == NDom(i, t.deg[d], t.kv[d], q[d])
      terms == [x \in 1..NumPts(s) |->
                 LET z == x - 1 iv == z % t.size[2] iu == (z \div t.size[2]) % t.size[1] iw == z \div (t.size[2] * t.size[1])
                 IN VScale(RMul(RMul(Nd(1, iu), Nd(2, iv)), Nd(3, iw)), s.P[x])]
  IN VSum(terms, cd)
T_WellFormed == WellFormed(sh)
T_Definition == out.op = "single" => out.ptw = PointFull(sh, out.prm)
T_Grid == out.op = "grid" =>
   /\ out.n = ProdInts(out.ns) /\ Len(out.pts) = out.n
   /\ out.first = [d \in 1..PDim(sh) |-> Domain(sh)[d][1]]
   /\ out.last = [d \in 1..PDim(sh) |-> Domain(sh)[d][2]]
\* clamped shapes start and end on their first / last control point
AllClamped(s) == \A d \in 1..PDim(s) : Clamped(s.deg[d], s.kv[d])
T_Corners == out.op = "grid" /\ AllClamped(sh) =>
   /\ out.pts[1] = Ctrlpts(sh)[1]
   /\ out.pts[out.n] = Ctrlpts(sh)[Idx(D3(sh).size, D3(sh).size[1] - 1, D3(sh).size[2] - 1, D3(sh).size[3] - 1)]
Emit == out.op # "init" => PrintT("CASE " \o ToJson([sh |-> sh, out |-> out]))
=============================================================================
