SPECIFICATION Spec
CONSTANTS
  MaxVox = 4
  Seed = 1
INVARIANT T_Covers
INVARIANT T_Touching
INVARIANT EmitC
CHECK_DEADLOCK FALSE
