SPECIFICATION Spec
CONSTANTS
  MaxVox = 4
  Seed = 1
INVARIANT T_Covers
INVARIANT T_Touching
INVARIANT T_CubesCover
INVARIANT EmitC
CHECK_DEADLOCK FALSE
