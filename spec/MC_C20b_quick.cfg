SPECIFICATION Spec
CONSTANTS
  MaxVox = 4
  Seed = 1
INVARIANT T_Covers
INVARIANT EmitC
CHECK_DEADLOCK FALSE
