------------------------------ MODULE MC_C07 ------------------------------
(* C07: splitting and Bezier decomposition reproduce the original piecewise *)
EXTENDS Ops, Lattice, TLC, Json

CONSTANTS CurveP, CurveInt, SurfMode, Seed
VARIABLES sh, out
vars == <<sh, out>>

CurveSet == Curves(ClampedDirs(CurveP, KQ, CurveInt), {2}, BOOLEAN, Seed)
SD1 == ClampedDirs({1, 2}, <<R(1,4), Half>>, 2)
SD2 == ClampedDirs({2}, <<R(1,4), R(3,4)>>, 2) \cup ClampedDirs({3}, <<Half>>, 1)     \* (cubic directions with quarter knots overflow 32-bit integers)
SurfSet == IF SurfMode = 0 THEN {} ELSE
  IF SurfMode = 1 THEN {s \in Surfaces(SD1, SD1, {3}, BOOLEAN, Seed) : s.size[1] # s.size[2] \/ s.kv[1] # s.kv[2]}
  ELSE Surfaces(SD1 \cup SD2, SD1, {3}, BOOLEAN, Seed) \cup Surfaces(SD1, SD2, {3}, BOOLEAN, Seed)
\* non-normalised ranges with 0 strictly inside ([-1, 1] with a knot at 0; different ranges per direction)
RawC == <<2, AffineKV(MkClamped(2, <<R(1,4), Half>>, <<1, 1>>), RI(2), RI(-1))>>
RawD == <<1, AffineKV(MkClamped(1, <<Half>>, <<1>>), RI(3), RI(0))>>
RawSet == Curves({RawC}, {2}, BOOLEAN, Seed) \cup (IF SurfMode = 0 THEN {} ELSE Surfaces({RawC}, {RawD}, {3}, {TRUE}, Seed) \cup Surfaces({RawD}, {RawC}, {3}, {FALSE}, Seed))
Shapes == CurveSet \cup SurfSet \cup RawSet
Init == sh \in Shapes /\ out = [op |-> "init"]

SplitVals(d) == {x \in Breaks(sh.kv[d]) \cup SpanSamples(sh.deg[d], sh.kv[d], 1) : CanSplit(sh, d, x)}
Split(d, u) ==
  /\ out.op = "init"
  /\ out' = [op |-> "split", d |-> d, u |-> u, pieces |-> SplitDir(sh, d, u)]
  /\ UNCHANGED sh
SplitAtEnd(d, atHi) ==
  /\ out.op = "init"
  /\ out' = [op |-> "split_end", d |-> d, u |-> IF atHi THEN DomHi(sh.deg[d], sh.kv[d]) ELSE DomLo(sh.deg[d], sh.kv[d])]
  /\ UNCHANGED sh
DecomposeUV(s) == LET DU == DecomposeDir(s, 1) IN FlattenSeq([i \in 1..Len(DU) |-> DecomposeDir(DU[i], 2)])
Decompose(dir) ==
  /\ out.op = "init"
  /\ out' = [op |-> "decompose", dir |-> dir,
             pieces |-> IF dir = "u" THEN DecomposeDir(sh, 1) ELSE IF dir = "v" THEN DecomposeDir(sh, 2) ELSE DecomposeUV(sh)]
  /\ UNCHANGED sh
Next == \/ \E d \in 1..PDim(sh) : \E u \in SplitVals(d) : Split(d, u)
        \/ \E d \in 1..PDim(sh) : \E b \in BOOLEAN : SplitAtEnd(d, b)
        \/ \E dir \in (IF PDim(sh) = 1 THEN {"u"} ELSE {"u", "v", "uv"}) : Decompose(dir)
Spec == Init /\ [][Next]_vars

\* ---- the property on the specification ------------------------------------------
\* piece(t) = orig(lo + t (hi - lo)) per direction
PieceMatchesBox(piece, orig, los, his) ==
  \A prm \in SampleParams(piece) :
     PointH(piece, prm) = PointH(orig, [d \in 1..PDim(orig) |-> RAdd(los[d], RMul(prm[d], RSub(his[d], los[d])))])
SpanList(d) == LET B == BreakSeq(sh.kv[d]) IN [i \in 1..(Len(B) - 1) |-> <<B[i], B[i + 1]>>]
FullD(d) == <<DomLo(sh.deg[d], sh.kv[d]), DomHi(sh.deg[d], sh.kv[d])>>
T_Split == out.op = "split" =>
  LET d == out.d u == out.u
      Lo(e) == DomLo(sh.deg[e], sh.kv[e])  Hi(e) == DomHi(sh.deg[e], sh.kv[e])
      lo1 == [e \in 1..PDim(sh) |-> Lo(e)]  hi1 == [e \in 1..PDim(sh) |-> IF e = d THEN u ELSE Hi(e)]
      lo2 == [e \in 1..PDim(sh) |-> IF e = d THEN u ELSE Lo(e)]  hi2 == [e \in 1..PDim(sh) |-> Hi(e)]
  IN /\ PieceMatchesBox(out.pieces[1], sh, lo1, hi1)
     /\ PieceMatchesBox(out.pieces[2], sh, lo2, hi2)
     /\ WellFormed(out.pieces[1]) /\ WellFormed(out.pieces[2])
T_Decompose == out.op = "decompose" =>
  LET su == SpanList(1)
      sv == IF PDim(sh) = 2 THEN SpanList(2) ELSE <<FullD(1)>>
      boxes == IF out.dir = "u" THEN [i \in 1..Len(su) |-> <<su[i], IF PDim(sh) = 2 THEN FullD(2) ELSE FullD(1)>>]
               ELSE IF out.dir = "v" THEN [j \in 1..Len(sv) |-> <<FullD(1), sv[j]>>]
               ELSE [x \in 1..(Len(su) * Len(sv)) |-> <<su[((x - 1) \div Len(sv)) + 1], sv[((x - 1) % Len(sv)) + 1]>>]
  IN /\ Len(out.pieces) = Len(boxes)                                  \* exactly one piece per non-empty span (pair)
     /\ \A x \in 1..Len(boxes) :
          LET pc == out.pieces[x] IN
          /\ WellFormed(pc)
          /\ PieceMatchesBox(pc, sh, [e \in 1..PDim(sh) |-> boxes[x][e][1]], [e \in 1..PDim(sh) |-> boxes[x][e][2]])
          /\ (out.dir \in {"u", "uv"} => pc.size[1] = pc.deg[1] + 1)       \* Bezier in the decomposed directions
          /\ (out.dir \in {"v", "uv"} => pc.size[2] = pc.deg[2] + 1)
Emit == out.op # "init" => PrintT("CASE " \o ToJson([sh |-> sh, out |-> out]))
=============================================================================
