SPECIFICATION Spec
CONSTANTS
  Shapes0 <- MCShapes
  Acts = {"set_ctrlpts", "set_weights", "set_ctrlptsw", "shrink_ctrlpts", "scale_weights", "read", "edit_ctrlptsw", "fork"}
  MaxDepth = 3
  DepthCurve = 3
  DepthOther = 2
  Seed = 1
INVARIANT T_Consistent
INVARIANT EmitViews
PROPERTY P_Steps
CHECK_DEADLOCK FALSE
