SPECIFICATION Spec
CONSTANTS
  Shapes0 <- MCShapes
  Acts = {"insert"}
  MaxDepth = 2
  CurveP = {1,2,3}
  CurveInt = 1
  SurfMode = 1
  VolMode = 1
  DepthCurve = 2
  DepthSurf = 1
  DepthVol = 1
  AllMulti = FALSE
  Seed = 1
INVARIANT T_WellFormed
INVARIANT Emit
PROPERTY P_SameShape
PROPERTY P_Structure
PROPERTY P_Reject
CHECK_DEADLOCK FALSE
