SPECIFICATION Spec
CONSTANTS
  MaxP = 4
  MaxHiP = 7
  MaxInterior = 6
  KVals <- KValsT
  Eps <- Eps64
  MaxGenExtra = 24
  SpanInterior = 12
INVARIANT T_SpanUnique
INVARIANT T_SpanAlgos
INVARIANT T_BasisFuns
INVARIANT T_NonNeg
INVARIANT T_Unity
INVARIANT T_Local
INVARIANT T_CoxDeBoor
INVARIANT T_AllDegrees
INVARIANT T_DerZero
INVARIANT T_Generate
INVARIANT T_Normalize
INVARIANT T_Check
INVARIANT Emit
CHECK_DEADLOCK FALSE
