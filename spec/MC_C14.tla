------------------------------ MODULE MC_C14 ------------------------------
(* C14: export followed by import reproduces the geometry.                   *)
EXTENDS Exchange, Lattice, TLC, Json
CONSTANTS Seed
VARIABLES c, out
vars == <<c, out>>
B1 == <<1, MkClamped(1, <<Half>>, <<0>>)>>
L3 == <<1, MkClamped(1, <<Half>>, <<1>>)>>
B2 == <<2, MkClamped(2, <<Half>>, <<0>>)>>
K2 == <<2, MkClamped(2, <<R(1,4)>>, <<1>>)>>
K3 == <<3, MkClamped(3, <<R(1,4), R(3,4)>>, <<1, 1>>)>>
\* variants that stress the writers / readers: coordinates of magnitude 1e-5 (printed in exponent notation) and weights
\* 1/2, 3/2, 1/2, ... whose sum equals the number of control points
Tiny(s) == ScaleBy(s, R(3, 100000))
HalfW(s) == [s EXCEPT !.P = Combine(Ctrlpts(s), [i \in 1..Len(s.P) |-> IF i % 2 = 1 THEN R(1, 2) ELSE R(3, 2)])]
EqualW(s) == [s EXCEPT !.P = Combine(Ctrlpts(s), [i \in 1..Len(s.P) |-> R(5, 2)])]
Variants(S) == S \cup {Tiny(s) : s \in {x \in S : ~x.rat}} \cup {HalfW(s) : s \in {x \in S : x.rat /\ Len(x.P) % 2 = 0}} \cup {EqualW(s) : s \in {x \in S : x.rat}}
CurveSet == Variants(Curves({K2, K3, L3}, {2, 3}, BOOLEAN, Seed))
SurfSet == Variants({s \in Surfaces({B1, L3, K2}, {B2, L3, K2, K3}, {3}, BOOLEAN, Seed) : s.size[1] # s.size[2]})
VolSet == Variants({s \in Volumes({B1, L3}, {L3, K2}, {B1, K2}, BOOLEAN, Seed) : DiffSizes(s)})
\* containers of 1..3 shapes of one kind (sequence order is the file order)
SeqsOf(S, kind) == {<<a>> : a \in S} \cup
   (IF kind = "curve" THEN {<<MkShape(<<2>>, <<K2[2]>>, 2, TRUE, Seed), MkShape(<<3>>, <<K3[2]>>, 2, FALSE, Seed + 1), MkShape(<<1>>, <<L3[2]>>, 2, TRUE, Seed + 2)>>}
    ELSE IF kind = "surface" THEN {<<MkShape(<<1, 2>>, <<L3[2], B2[2]>>, 3, TRUE, Seed), MkShape(<<2, 1>>, <<K2[2], B1[2]>>, 3, FALSE, Seed + 1)>>}
    ELSE {<<MkShape(<<1, 1, 2>>, <<B1[2], L3[2], K2[2]>>, 3, TRUE, Seed), MkShape(<<1, 2, 1>>, <<L3[2], K2[2], B1[2]>>, 3, FALSE, Seed + 1)>>})
Init == /\ c \in {[kind |-> "curve", shapes |-> q] : q \in SeqsOf(CurveSet, "curve")}
               \cup {[kind |-> "surface", shapes |-> q] : q \in SeqsOf(SurfSet, "surface")}
               \cup {[kind |-> "volume", shapes |-> q] : q \in SeqsOf(VolSet, "volume")}
        /\ out = [op |-> "init"]
AJson == /\ out.op = "init"
         /\ out' = [op |-> "json", file |-> [i \in 1..Len(c.shapes) |-> JsonShape(c.shapes[i])], imp |-> [i \in 1..Len(c.shapes) |-> Imported(c.shapes[i])]]
         /\ UNCHANGED c
AMesh == /\ out.op = "init" /\ c.kind \in {"surface", "volume"}
         /\ out' = [op |-> IF c.kind = "surface" THEN "smesh" ELSE "vmesh",
                    file |-> [i \in 1..Len(c.shapes) |-> IF c.kind = "surface" THEN SmeshFile(c.shapes[i]) ELSE VmeshFile(c.shapes[i])],
                    imp |-> [i \in 1..Len(c.shapes) |-> Imported(c.shapes[i])]]
         /\ UNCHANGED c
AText == /\ out.op = "init" /\ Len(c.shapes) = 1 /\ c.kind \in {"curve", "surface"}
         /\ LET s == c.shapes[1] IN
            out' = [op |-> "text", txt |-> TxtFile(s), txt2d |-> IF c.kind = "surface" THEN Txt2DFile(s) ELSE <<>>, csv |-> CsvCtrlptsFile(s)]
         /\ UNCHANGED c
Next == AJson \/ AMesh \/ AText
Spec == Init /\ [][Next]_vars
\* the abstract files determine the definition: rebuilding from the smesh / vmesh rows gives back the flat net
T_MeshRoundTrip == out.op \in {"smesh", "vmesh"} =>
  \A i \in 1..Len(c.shapes) :
     LET s == c.shapes[i] f == out.file[i] su == s.size[1] sv == s.size[2] IN
     IF out.op = "smesh" THEN FlipCtrlptsU(f.rows, su, sv) = XYZW(s)
     ELSE FlattenSeq([k \in 1..s.size[3] |-> FlipCtrlptsU([x \in 1..(su * sv) |-> f.rows[(k - 1) * su * sv + x]], su, sv)]) = XYZW(s)
EmitC == out.op # "init" => PrintT("CASE " \o ToJson([c |-> c, out |-> out]))
=============================================================================
