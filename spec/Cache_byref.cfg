SPECIFICATION Spec
CONSTANTS
  Keys = {0, 1}
  Capacity = 2
  MaxCalls = 3
  ByReference = TRUE
INVARIANT ReturnsFunctionValue
CHECK_DEADLOCK FALSE
