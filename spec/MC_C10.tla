------------------------------ MODULE MC_C10 ------------------------------
(* C10: translation, rotation and scaling act on the shape as on its points *)
EXTENDS Ops, Lattice, TLC, Json
CONSTANTS Seed
VARIABLES c, out
vars == <<c, out>>
K2 == <<2, MkClamped(2, <<Half>>, <<1>>)>>
U2 == <<2, GenerateKV(2, 4, FALSE)>>
B1 == <<1, MkClamped(1, <<Half>>, <<0>>)>>
L3 == <<1, MkClamped(1, <<Half>>, <<1>>)>>
Singles == Curves({K2, U2}, {2, 3}, BOOLEAN, Seed) \cup Surfaces({L3}, {K2}, {3}, BOOLEAN, Seed)
           \cup Volumes({B1}, {L3}, {K2}, BOOLEAN, Seed)
           \* degrees decreasing from u to v to w (the start point of the domain is read per direction)
           \cup Surfaces({K2}, {L3}, {3}, BOOLEAN, Seed) \cup Volumes({K2}, {L3}, {B1}, {FALSE}, Seed)
\* containers: sequences of 2..3 curves of the same spatial dimension with different start points
Conts == {<<MkShape(<<2>>, <<K2[2]>>, dim, r1, Seed), MkShape(<<2>>, <<K2[2]>>, dim, r2, Seed + 1)>> : dim \in {2, 3}, r1 \in BOOLEAN, r2 \in BOOLEAN}
         \cup {<<MkShape(<<2>>, <<K2[2]>>, 3, TRUE, Seed), MkShape(<<1>>, <<L3[2]>>, 3, FALSE, Seed + 2), MkShape(<<2>>, <<U2[2]>>, 3, FALSE, Seed + 3)>>}
\* containers whose elements are images of each other under one of the maps applied below (an "orbit"): after the map an element
\* coincides with what a neighbour was before it
V3 == [k \in 1..3 |-> RI(k - 2)]
OrbitConts == UNION {{<<s, Translate(s, V3), Translate(Translate(s, V3), V3)>>, <<s, ScaleBy(s, RI(2))>>, <<ScaleBy(s, RI(2)), s>>}
                      : s \in {MkShape(<<2>>, <<K2[2]>>, 3, r, Seed) : r \in BOOLEAN}}
Init == c \in {<<s>> : s \in Singles} \cup Conts \cup OrbitConts /\ out = [op |-> "init"]

Dim == LET s == c[1] IN CDim(s) - (IF s.rat THEN 1 ELSE 0)
\* (the last one is a very small displacement, 2^-25 per coordinate: it must not be ignored)
TinyVec == [k \in 1..Dim |-> R(1, 33554432)]
Vecs == {[k \in 1..Dim |-> RI(k - 2)], [k \in 1..Dim |-> R(2 * k - 1, 2)], [k \in 1..Dim |-> Zero], TinyVec}
\* (2^-24: a model in a very small unit; the comparison is made relative to the scale)
Tiny == R(1, 16777216)
Factors == {R(-3, 2), Half, RI(2), Tiny}
\* <<cos, sin, degrees * 10^4>> : 90, 180, 270 degrees and the 3-4-5 angle (53.1301023541559835... degrees)
Angles == {<<Zero, One, <<90, 1>>>>, <<RI(-1), Zero, <<180, 1>>>>, <<Zero, RI(-1), <<270, 1>>>>, <<R(3,5), R(4,5), <<0, 0>>>>}
StartPoint(s) == Point(s, [d \in 1..PDim(s) |-> DomLo(s.deg[d], s.kv[d])])
ATranslate(vec, inpl) == /\ out.op = "init"
   /\ out' = [op |-> "translate", vec |-> vec, inplace |-> inpl, res |-> [i \in 1..Len(c) |-> Translate(c[i], vec)]] /\ UNCHANGED c
AScale(f, inpl) == /\ out.op = "init"
   /\ out' = [op |-> "scale", f |-> f, inplace |-> inpl, res |-> [i \in 1..Len(c) |-> ScaleBy(c[i], f)]] /\ UNCHANGED c
\* both orientations are emitted: the property does not fix the handedness of the rotation
ARotate(ax, ang, inpl) == /\ out.op = "init" /\ (Dim = 3 \/ ax = 2)
   /\ LET o == StartPoint(c[1]) IN
      out' = [op |-> "rotate", axis |-> ax, cos |-> ang[1], sin |-> ang[2], deg |-> ang[3], inplace |-> inpl, origin |-> o,
              res |-> [i \in 1..Len(c) |-> RotateAbout(c[i], o, ax, ang[1], ang[2])],
              res2 |-> [i \in 1..Len(c) |-> RotateAbout(c[i], o, ax, ang[1], RNeg(ang[2]))]] /\ UNCHANGED c
Next == \E inpl \in BOOLEAN :
          \/ \E v \in Vecs : ATranslate(v, inpl)
          \/ \E f \in Factors : AScale(f, inpl)
          \/ \E ax \in 0..2 : \E ang \in Angles : ARotate(ax, ang, inpl)
Spec == Init /\ [][Next]_vars

\* every evaluated point moves exactly as the map applied to the original point; weights unchanged
MapOf(p) == IF out.op = "translate" THEN VAdd(p, out.vec)
            ELSE IF out.op = "scale" THEN VScale(out.f, p)
            ELSE VAdd(Rot(VSub(p, out.origin), out.axis, out.cos, out.sin), out.origin)
\* (the tiny factor is left to the linearity shown by the other factors: its evaluated points leave TLC's integers)
T_ActsOnPoints == out.op # "init" /\ ~(out.op = "scale" /\ out.f = Tiny) /\ ~(out.op = "translate" /\ out.vec = TinyVec) =>
  \A i \in 1..Len(c) :
     /\ \A prm \in ShapeParams(c[i], 1) : Point(out.res[i], prm) = MapOf(Point(c[i], prm))
     /\ Weights(out.res[i]) = Weights(c[i])
     /\ out.res[i].kv = c[i].kv /\ out.res[i].deg = c[i].deg
EmitC == out.op # "init" => PrintT("CASE " \o ToJson([c |-> c, out |-> out]))
=============================================================================
