-------------------------------- MODULE Rat --------------------------------
(***************************************************************************)
(* Exact rational arithmetic inside TLC.  A rational is a pair <<n, d>> in *)
(* lowest terms with d > 0, so equality of rationals is TLC's structural   *)
(* equality.  TLC integers are 32-bit and TLC *reports* an overflow; add   *)
(* and mul cancel gcds before multiplying so that the B-spline lattices    *)
(* used by the MC_* models stay inside that range.                         *)
(***************************************************************************)
EXTENDS Integers, Sequences, TLC

Abs(x) == IF x < 0 THEN -x ELSE x
Sgn(x) == IF x < 0 THEN -1 ELSE IF x = 0 THEN 0 ELSE 1

RECURSIVE GCD(_, _)
GCD(a, b) == IF b = 0 THEN a ELSE GCD(b, a % b)

Norm(n, d) ==
  IF n = 0 THEN <<0, 1>>
  ELSE LET g == GCD(Abs(n), Abs(d))
           s == IF d < 0 THEN -1 ELSE 1
       IN  <<s * (n \div g), s * (d \div g)>>

R(n, d) == Norm(n, d)
RI(n)   == <<n, 1>>
Zero    == <<0, 1>>
One     == <<1, 1>>
Half    == <<1, 2>>
Num(a)  == a[1]
Den(a)  == a[2]
IsRat(a) == a[2] > 0 /\ GCD(Abs(a[1]), a[2]) = 1

RNeg(a) == <<-a[1], a[2]>>
RAdd(a, b) ==
  IF a[1] = 0 THEN b ELSE IF b[1] = 0 THEN a ELSE
  LET g == GCD(a[2], b[2]) IN
  Norm(a[1] * (b[2] \div g) + b[1] * (a[2] \div g), (a[2] \div g) * b[2])
RSub(a, b) == RAdd(a, RNeg(b))
RMul(a, b) ==
  IF a[1] = 0 \/ b[1] = 0 THEN <<0, 1>> ELSE
  LET g1 == GCD(Abs(a[1]), b[2])
      g2 == GCD(Abs(b[1]), a[2])
  IN  <<(a[1] \div g1) * (b[1] \div g2), (a[2] \div g2) * (b[2] \div g1)>>
RInv(b) == IF b[1] < 0 THEN <<-b[2], -b[1]>> ELSE <<b[2], b[1]>>
RDiv(a, b) == RMul(a, RInv(b))
\* comparisons: cross-multiplication after cancelling the gcd of the denominators
\* (plain cross-multiplication: the compared quantities are knots, parameters and coordinates with small
\*  denominators; an overflow would be reported by TLC, never wrapped)
RLt(a, b) == IF a[2] = b[2] THEN a[1] < b[1] ELSE a[1] * b[2] < b[1] * a[2]
RLe(a, b) == IF a[2] = b[2] THEN a[1] <= b[1] ELSE a[1] * b[2] <= b[1] * a[2]
RGt(a, b) == RLt(b, a)
RGe(a, b) == RLe(b, a)
RMin(a, b) == IF RLe(a, b) THEN a ELSE b
RMax(a, b) == IF RLe(a, b) THEN b ELSE a
RAbs(a) == <<Abs(a[1]), a[2]>>
RSgn(a) == Sgn(a[1])
RIsInt(a) == a[2] = 1
\* floor and round-half-up (Python int(x + 0.5) for x >= 0)
RFloor(a) == IF a[1] >= 0 THEN a[1] \div a[2] ELSE -((-a[1] + a[2] - 1) \div a[2])
RMid(a, b) == RMul(Half, RAdd(a, b))

RECURSIVE RPow(_, _)
RPow(a, k) == IF k = 0 THEN One ELSE RMul(a, RPow(a, k - 1))

\* ---- vectors (sequences of rationals) -----------------------------------
\* TLC represents [k \in S |-> e] lazily and re-evaluates e on every application; TLCEval forces the
\* value once (without it nested vector expressions are re-computed exponentially often).
Rep(x, n)    == TLCEval([i \in 1..n |-> x])
VZero(d)     == Rep(Zero, d)
VAdd(a, b)   == TLCEval([k \in 1..Len(a) |-> RAdd(a[k], b[k])])
VSub(a, b)   == TLCEval([k \in 1..Len(a) |-> RSub(a[k], b[k])])
VScale(c, a) == TLCEval([k \in 1..Len(a) |-> RMul(c, a[k])])
VNeg(a)      == TLCEval([k \in 1..Len(a) |-> RNeg(a[k])])
\* alpha*a + (1-alpha)*b
VLerp(al, a, b) == VAdd(VScale(al, a), VScale(RSub(One, al), b))
RECURSIVE VSum(_, _)
VSum(s, d) == IF s = <<>> THEN VZero(d) ELSE VAdd(Head(s), VSum(Tail(s), d))
RECURSIVE RSum(_)
RSum(s) == IF s = <<>> THEN Zero ELSE RAdd(Head(s), RSum(Tail(s)))
VDot(a, b) == RSum([k \in 1..Len(a) |-> RMul(a[k], b[k])])
VNorm2(a) == VDot(a, a)
VCross(a, b) == <<RSub(RMul(a[2], b[3]), RMul(a[3], b[2])),
                  RSub(RMul(a[3], b[1]), RMul(a[1], b[3])),
                  RSub(RMul(a[1], b[2]), RMul(a[2], b[1]))>>
VInts(s) == TLCEval([k \in 1..Len(s) |-> RI(s[k])])

\* binomial coefficient (integer)
RECURSIVE Binom(_, _)
Binom(n, k) == IF k < 0 \/ k > n THEN 0 ELSE IF k = 0 \/ k = n THEN 1
               ELSE Binom(n - 1, k - 1) + Binom(n - 1, k)
RECURSIVE Fact(_)
Fact(n) == IF n <= 1 THEN 1 ELSE n * Fact(n - 1)
\* falling factorial p (p-1) ... (p-k+1)
RECURSIVE Falling(_, _)
Falling(p, k) == IF k = 0 THEN 1 ELSE p * Falling(p - 1, k - 1)
=============================================================================
