SPECIFICATION Spec
CONSTANTS
  Shapes0 <- MCShapes
  Acts = {"set_ctrlpts", "set_weights", "set_ctrlptsw", "shrink_ctrlpts", "scale_weights", "read", "edit_ctrlptsw", "fork"}
  MaxDepth = 3
  DepthCurve = 4
  DepthOther = 3
  Seed = 2
INVARIANT T_Consistent
INVARIANT EmitViews
PROPERTY P_Steps
CHECK_DEADLOCK FALSE
