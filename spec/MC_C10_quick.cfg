SPECIFICATION Spec
CONSTANTS
  Seed = 1
INVARIANT T_ActsOnPoints
INVARIANT EmitC
CHECK_DEADLOCK FALSE
