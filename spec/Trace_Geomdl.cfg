SPECIFICATION Spec
INVARIANT Accept
INVARIANT WellFormedAlways
CHECK_DEADLOCK FALSE
