-------------------------------- MODULE Hodo --------------------------------
(***************************************************************************)
(* Derivative control points and hodograph shapes.                         *)
(* DEFINITION: HodoCurve / HodoSurf* (NURBS Book Eq 3.4-3.8, 3.20-3.24).   *)
(* TRANSCRIPTIONS: CurveDerivCpts (A3.3), CurveDerivsAlg2 (A3.4),          *)
(*   SurfDerivCpts (A3.7), SurfDerivsAlg2 (A3.8).                           *)
(***************************************************************************)
EXTENDS Shape

\* ---- definitions ---------------------------------------------------------
\* differences along one direction of a non-rational shape:  Q_i = p (P_{i+1} - P_i) / (U_{i+p+1} - U_{i+1})
HodoCurve(s) ==
  LET p == s.deg[1] U == s.kv[1] n == s.size[1] IN
  [deg |-> <<p - 1>>, kv |-> <<Slice(U, 1, Len(U) - 1)>>, size |-> <<n - 1>>, rat |-> FALSE,
   P |-> TLCEval([i \in 1..(n - 1) |-> VScale(RQuot(RI(p), RSub(U[i + p + 1], U[i + 1])), VSub(s.P[i + 1], s.P[i]))])]
HodoSurfU(s) ==
  LET p == s.deg[1] U == s.kv[1] nu == s.size[1] nv == s.size[2] IN
  [deg |-> <<p - 1, s.deg[2]>>, kv |-> <<Slice(U, 1, Len(U) - 1), s.kv[2]>>, size |-> <<nu - 1, nv>>, rat |-> FALSE,
   P |-> [x \in 1..((nu - 1) * nv) |->
           LET iu == (x - 1) \div nv iv == (x - 1) % nv IN
           VScale(RQuot(RI(p), RSub(U[iu + 1 + p + 1], U[iu + 1 + 1])), VSub(s.P[iv + nv * (iu + 1) + 1], s.P[iv + nv * iu + 1]))]]
HodoSurfV(s) ==
  LET q == s.deg[2] V == s.kv[2] nu == s.size[1] nv == s.size[2] IN
  [deg |-> <<s.deg[1], q - 1>>, kv |-> <<s.kv[1], Slice(V, 1, Len(V) - 1)>>, size |-> <<nu, nv - 1>>, rat |-> FALSE,
   P |-> [x \in 1..(nu * (nv - 1)) |->
           LET iu == (x - 1) \div (nv - 1) iv == (x - 1) % (nv - 1) IN
           VScale(RQuot(RI(q), RSub(V[iv + 1 + q + 1], V[iv + 1 + 1])), VSub(s.P[iv + 1 + nv * iu + 1], s.P[iv + nv * iu + 1]))]]
HodoSurfUV(s) == HodoSurfV(HodoSurfU(s))

\* ---- transcription of helpers.curve_deriv_cpts (A3.3) ----------------------
\* returns PK as a function [k \in 0..d][i \in 0..r] (entries beyond r-k are unused)
RECURSIVE CDC(_, _, _, _, _, _)
CDC(p, U, cpts, r1, r, k) ==    \* row k of PK given by recursion on k
  IF k = 0 THEN TLCEval([i \in 0..r |-> cpts[r1 + i + 1]])
  ELSE LET prev == CDC(p, U, cpts, r1, r, k - 1) IN
       TLCEval([i \in 0..r |-> IF i <= r - k
                       THEN VScale(RDiv(RI(p - k + 1), RSub(At(U, r1 + i + p + 1), At(U, r1 + i + k))), VSub(prev[i + 1], prev[i]))
                       ELSE prev[i]])
CurveDerivCpts(p, U, cpts, r1, r2, d) == TLCEval([k \in 0..d |-> CDC(p, U, cpts, r1, r2 - r1, k)])
\* evaluators.CurveEvaluator2.derivatives (A3.4); orders above the degree stay zero
CurveDerivsAlg2(s, u, order) ==
  LET p == s.deg[1] U == s.kv[1] n == s.size[1]
      du == IMin(p, order)
      span == FindSpanLinear(p, U, n, u)
      bf == AllBasisFuns(p, U, span, u)        \* bf[deg+1][j+1] = N_{span-deg+j, deg}
      PK == CurveDerivCpts(p, U, s.P, span - p, span, du)
  IN [k \in 0..order |->
        IF k > du THEN VZero(CDim(s))
        ELSE VSum([j \in 1..(p - k + 1) |-> VScale(bf[p - k + 1][j], PK[k][j - 1])], CDim(s))]

\* ---- transcription of helpers.surface_deriv_cpts (A3.7, book loop bounds) ----
\* PKL[k][l][i][j], 0 <= k <= du, 0 <= l <= min(d-k, dv)
SurfDerivCpts(s, r1, r2, s1, s2, d) ==
  LET p == s.deg[1] q == s.deg[2] U == s.kv[1] V == s.kv[2] nv == s.size[2] nu == s.size[1]
      du == IMin(p, d) dv == IMin(q, d) r == r2 - r1 ss == s2 - s1
      \* u-derivative control points of the column j (all rows), as in the code: curve through cpts[j + nv*i]
      Col(j) == TLCEval([i \in 1..nu |-> s.P[j + nv * (i - 1) + 1]])
      \* tables (0-ary LET definitions are evaluated once by TLC)
      PKu == TLCEval([j \in s1..s2 |-> CurveDerivCpts(p, U, Col(j), r1, r2, du)])
      Row0 == TLCEval([k \in 0..du |-> [i \in 0..r |-> TLCEval([j \in 1..(ss + 1) |-> PKu[s1 + j - 1][k][i]])]])   \* PKL[k][0][i][*]
      PKuv == TLCEval([k \in 0..du |-> [i \in 0..(r - k) |-> CurveDerivCpts(q, Slice(V, s1, Len(V)), Row0[k][i], 0, ss, IMin(d - k, dv))]])
  IN [k \in 0..du |-> [l \in 0..IMin(d - k, dv) |-> [i \in 0..(r - k) |-> [j \in 0..(ss - l) |->
        IF l = 0 THEN Row0[k][i][j + 1] ELSE PKuv[k][i][l][j]]]]]
SurfDerivsAlg2(s, prm, order) ==
  LET p == s.deg[1] q == s.deg[2] U == s.kv[1] V == s.kv[2]
      du == IMin(p, order) dv == IMin(q, order)
      su == FindSpanLinear(p, U, s.size[1], prm[1])
      sv == FindSpanLinear(q, V, s.size[2], prm[2])
      bu == AllBasisFuns(p, U, su, prm[1])
      bv == AllBasisFuns(q, V, sv, prm[2])
      PKL == SurfDerivCpts(s, su - p, su, sv - q, sv, order)
  IN [k \in 0..order |-> [l \in 0..(order - k) |->
        IF k > du \/ l > IMin(order - k, dv) THEN VZero(CDim(s))
        ELSE VSum([i \in 1..(q - l + 1) |->
               VScale(bv[q - l + 1][i], VSum([j \in 1..(p - k + 1) |-> VScale(bu[p - k + 1][j], PKL[k][l][j - 1][i - 1])], CDim(s)))], CDim(s))]]
=============================================================================
