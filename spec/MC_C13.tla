------------------------------ MODULE MC_C13 ------------------------------
(* C13: one control-net layout convention across all modules.               *)
EXTENDS Layout, Lattice, TLC, Json
CONSTANTS Seed
VARIABLES sh, out
vars == <<sh, out>>
B1 == <<1, MkClamped(1, <<Half>>, <<0>>)>>
L3 == <<1, MkClamped(1, <<Half>>, <<1>>)>>
B2 == <<2, MkClamped(2, <<Half>>, <<0>>)>>
K2 == <<2, MkClamped(2, <<Half>>, <<1>>)>>
Dirs == {B1, L3, B2, K2}          \* sizes 2, 3, 3, 4
Shapes == {s \in Surfaces(Dirs, Dirs, {3}, BOOLEAN, Seed) : s.size[1] # s.size[2]}
          \cup {s \in Volumes({B1, L3}, {L3, K2}, {B1, K2}, BOOLEAN, Seed) : DiffSizes(s)}
          \cup Curves({K2}, {2, 3}, BOOLEAN, Seed)
Init == sh \in Shapes /\ out = [op |-> "init"]
Vec == [k \in 1..(CDim(sh) - (IF sh.rat THEN 1 ELSE 0)) |-> RI(k)]

View2D == out.op = "init" /\ PDim(sh) = 2 /\ out' = [op |-> "ctrlpts2d", grid |-> Ctrlpts2D(sh),
            flipu |-> FlipCtrlptsU(FlipCtrlpts(sh.P, sh.size[1], sh.size[2]), sh.size[1], sh.size[2]),
            urow |-> FlipCtrlpts(sh.P, sh.size[1], sh.size[2])] /\ UNCHANGED sh
ExtractS == out.op = "init" /\ PDim(sh) = 2 /\ out' = [op |-> "extract_curves", ex |-> ExtractCurves(sh),
            ex2 |-> ExtractCurves(Flip(sh))] /\ UNCHANGED sh        \* extracted again after an in-place flip
ExtractV == out.op = "init" /\ PDim(sh) = 3 /\ out' = [op |-> "extract_surfaces", ex |-> ExtractSurfaces(sh),
            vec |-> Vec, ex2 |-> ExtractSurfaces(Translate(sh, Vec))] /\ UNCHANGED sh   \* extracted again after an in-place translation
TransposeOp == out.op = "init" /\ PDim(sh) = 2 /\ out' = [op |-> "transpose", res |-> Transpose(sh)] /\ UNCHANGED sh
FlipOp == out.op = "init" /\ PDim(sh) = 2 /\ out' = [op |-> "flip", res |-> Flip(sh)] /\ UNCHANGED sh
SweepOp == out.op = "init" /\ PDim(sh) <= 2 /\ out' = [op |-> "sweep", vec |-> Vec, res |-> Sweep(sh, Vec)] /\ UNCHANGED sh
Index == out.op = "init" /\ PDim(sh) >= 2 /\
   out' = [op |-> "index", tab |-> IF PDim(sh) = 2
             THEN [iu \in 1..sh.size[1] |-> [iv \in 1..sh.size[2] |-> MgrIndexS(sh.size, iu - 1, iv - 1)]]
             ELSE [iu \in 1..sh.size[1] |-> [iv \in 1..sh.size[2] |-> [iw \in 1..sh.size[3] |-> MgrIndexV(sh.size, iu - 1, iv - 1, iw - 1)]]]] /\ UNCHANGED sh
Next == View2D \/ ExtractS \/ ExtractV \/ TransposeOp \/ FlipOp \/ SweepOp \/ Index
Spec == Init /\ [][Next]_vars

\* ---- the property on the specification ---------------------------------------------------------
T_Extract2 == out.op = "extract_curves" =>
   /\ ConstructSurface("u", out.ex.v, sh.deg[1], sh.kv[1]) = sh       \* curves along v, stacked along u
   /\ ConstructSurface("v", out.ex.u, sh.deg[2], sh.kv[2]) = sh
   /\ Len(out.ex.u) = sh.size[2] /\ Len(out.ex.v) = sh.size[1]
T_Extract3 == out.op = "extract_surfaces" =>
   /\ ConstructVolume("w", out.ex.uv, sh.deg[3], sh.kv[3]) = sh
   /\ ConstructVolume("v", out.ex.uw, sh.deg[2], sh.kv[2]) = sh
   /\ ConstructVolume("u", out.ex.vw, sh.deg[1], sh.kv[1]) = sh
\* managers and the evaluators address the same point
T_Index == out.op = "index" =>
   IF PDim(sh) = 2 THEN \A iu \in 1..sh.size[1], iv \in 1..sh.size[2] : out.tab[iu][iv] + 1 = Idx(D3(sh).size, iu - 1, iv - 1, 0)
   ELSE \A iu \in 1..sh.size[1], iv \in 1..sh.size[2], iw \in 1..sh.size[3] : out.tab[iu][iv][iw] + 1 = Idx(sh.size, iu - 1, iv - 1, iw - 1)
T_View2D == out.op = "ctrlpts2d" => out.flipu = sh.P /\ \A iu \in 1..sh.size[1], iv \in 1..sh.size[2] : out.grid[iu][iv] = sh.P[Idx(D3(sh).size, iu - 1, iv - 1, 0)]
\* transposing swaps the roles of u and v
T_Transpose == out.op = "transpose" => \A prm \in ShapeParams(sh, 1) : Point(out.res, <<prm[2], prm[1]>>) = Point(sh, prm)
\* sweeping: the two opposite boundary sections are the input and its translate
T_Sweep == out.op = "sweep" =>
   IF PDim(sh) = 1 THEN \A prm \in ShapeParams(sh, 1) : /\ Point(out.res, <<Zero, prm[1]>>) = Point(sh, prm)
                                                       /\ Point(out.res, <<One, prm[1]>>) = VAdd(Point(sh, prm), out.vec)
   ELSE \A prm \in ShapeParams(sh, 1) : /\ Point(out.res, <<prm[1], prm[2], Zero>>) = Point(sh, prm)
                                        /\ Point(out.res, <<prm[1], prm[2], One>>) = VAdd(Point(sh, prm), out.vec)
EmitC == out.op # "init" => PrintT("CASE " \o ToJson([sh |-> sh, out |-> out]))
=============================================================================
