SPECIFICATION Spec
CONSTANTS
  Seed = 2
INVARIANT T_MeshRoundTrip
INVARIANT EmitC
CHECK_DEADLOCK FALSE
