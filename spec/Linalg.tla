------------------------------- MODULE Linalg -------------------------------
(* Exact linear algebra over integer matrices (definitions): Laplace         *)
(* determinant, adjugate inverse, Cramer solve, permutation matrices.        *)
EXTENDS Rat, SeqX

Dim(A) == Len(A)
Minor(A, i, j) == LET n == Len(A) IN
  TLCEval([r \in 1..(n - 1) |-> [c \in 1..(n - 1) |-> A[IF r < i THEN r ELSE r + 1][IF c < j THEN c ELSE c + 1]]])
RECURSIVE Det(_)
Det(A) == LET n == Len(A) IN
  IF n = 1 THEN A[1][1]
  ELSE IF n = 2 THEN A[1][1] * A[2][2] - A[1][2] * A[2][1]
  ELSE LET RECURSIVE S(_)
           S(j) == IF j > n THEN 0 ELSE (IF j % 2 = 1 THEN 1 ELSE -1) * A[1][j] * Det(Minor(A, 1, j)) + S(j + 1)
       IN S(1)
Cof(A, i, j) == (IF (i + j) % 2 = 0 THEN 1 ELSE -1) * (IF Len(A) = 1 THEN 1 ELSE Det(Minor(A, i, j)))
\* inverse as rationals: A^-1[i][j] = Cof(A, j, i) / Det(A)
Inverse(A) == LET n == Len(A) d == Det(A) IN TLCEval([i \in 1..n |-> [j \in 1..n |-> R(Cof(A, j, i), d)]])
MatVecR(M, b) == TLCEval([i \in 1..Len(M) |-> RSum([j \in 1..Len(b) |-> RMul(M[i][j], RI(b[j]))])])
\* solution of A X = B (B: n x m integer matrix), as rationals
Solve(A, B) == LET Ai == Inverse(A) n == Len(A) m == Len(B[1]) IN
  TLCEval([i \in 1..n |-> [c \in 1..m |-> RSum([j \in 1..n |-> RMul(Ai[i][j], RI(B[j][c]))])]])
IsPermMatrix(P) == LET n == Len(P) IN
  /\ \A i, j \in 1..n : P[i][j] \in {0, 1}
  /\ \A i \in 1..n : SumInts(P[i]) = 1
  /\ \A j \in 1..n : SumInts([i \in 1..n |-> P[i][j]]) = 1
MatMulI(X, Y) == TLCEval([i \in 1..Len(X) |-> [j \in 1..Len(Y[1]) |-> SumInts([k \in 1..Len(Y) |-> X[i][k] * Y[k][j]])]])
LeadingMinorsNonzero(A) == \A k \in 1..Len(A) : Det([i \in 1..k |-> [j \in 1..k |-> A[i][j]]]) # 0
AbsI(x) == IF x < 0 THEN -x ELSE x
DiagDominant(A) == \A i \in 1..Len(A) : AbsI(A[i][i]) > SumInts([j \in 1..Len(A) |-> IF j = i THEN 0 ELSE AbsI(A[i][j])])
\* TRANSCRIPTION of linalg.matrix_pivot: for column j the row (>= j) with the largest absolute entry of the *un-eliminated*,
\* already swapped matrix is moved to position j (first maximum wins)
RECURSIVE ArgMaxAbs(_, _, _, _, _)
ArgMaxAbs(M, j, i, best, bestv) ==
  IF i > Len(M) THEN best ELSE
  IF AbsI(M[i][j]) > bestv THEN ArgMaxAbs(M, j, i + 1, i, AbsI(M[i][j])) ELSE ArgMaxAbs(M, j, i + 1, best, bestv)
RECURSIVE PrePivotFrom(_, _)
PrePivotFrom(M, j) ==
  IF j > Len(M) THEN M ELSE
  LET row == ArgMaxAbs(M, j, j, j, 0) IN
  PrePivotFrom(IF row = j THEN M ELSE [M EXCEPT ![j] = M[row], ![row] = M[j]], j + 1)
PrePivot(A) == PrePivotFrom(A, 1)
\* a row swap is needed by partial pivoting at the first column
NeedsSwap(A) == \E i \in 2..Len(A) : AbsI(A[i][1]) > AbsI(A[1][1])
=============================================================================
