SPECIFICATION Spec
CONSTANTS
  CurveP = {1,2,3,4}
  CurveInt = 2
  SurfMode = 1
  RatSurfMaxOrd = 1
  RatCurveMaxOrd = 2
  AllOrders = FALSE
  Seed = 1
INVARIANT T_Alg2
INVARIANT T_ZeroAboveDegree
INVARIANT T_Order0
INVARIANT T_Hodo
INVARIANT Emit
CHECK_DEADLOCK FALSE
