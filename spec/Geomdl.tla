------------------------------- MODULE Geomdl -------------------------------
(***************************************************************************)
(* The system as a state machine: one spline object, its definition `obj`, *)
(* and the history of public calls applied to it.  One action per public   *)
(* call; deliberate deviations of the implementation are named:            *)
(*   - "insert" with rejected = TRUE: a direction exceeding degree -       *)
(*     multiplicity is refused; earlier directions of the same call stay   *)
(*     applied (operations.insert_knot processes u, then v, then w).       *)
(*   - removal of a knot that is NOT exactly removable is unspecified and   *)
(*     is not an action of this machine.                                    *)
(* The MC_* modules choose the initial shapes, the enabled actions, the     *)
(* argument sets and the depth.                                             *)
(***************************************************************************)
EXTENDS Ops, TLC, Json

CONSTANTS Shapes0,      \* set of initial definitions
          Acts,         \* enabled action names
          MaxDepth      \* maximal length of a history (operator of the initial shape: DepthOf(sh0))

VARIABLES sh0, obj, hist
vars == <<sh0, obj, hist>>

None == <<>>
Init == sh0 \in Shapes0 /\ obj = sh0 /\ hist = <<>>
Step(rec, new) == /\ obj' = new /\ hist' = Append(hist, rec) /\ UNCHANGED sh0

\* ---- argument sets -----------------------------------------------------------------
Interior(p, U) == {x \in Breaks(U) \cup SpanSamples(p, U, 1) : RLt(DomLo(p, U), x) /\ RLt(x, DomHi(p, U))}
\* admissible counts plus one over-insertion
InsCounts(p, U, u) == 1..(p - Mult(u, U) + 1)
DirChoices(s, d) == {None} \cup {<<u, r>> : u \in Interior(s.deg[d], s.kv[d]), r \in 1..(s.deg[d] + 1)}
\* set of <<prm, num>>; at least one direction selected; counts limited to admissible + 1.
\* allMulti = FALSE keeps every single-direction call but only those multi-direction calls in which
\* every selected direction uses its smallest interior parameter (all counts still enumerated).
InsArgs(s, allMulti) ==
  LET ch(d) == {None} \cup UNION {{<<u, r>> : r \in InsCounts(s.deg[d], s.kv[d], u)} : u \in Interior(s.deg[d], s.kv[d])}
                      \* both domain ends (multiplicity degree + 1 for clamped vectors): a single copy is already refused
                      \cup {<<DomLo(s.deg[d], s.kv[d]), 1>>, <<DomHi(s.deg[d], s.kv[d]), 1>>}
      tup == IF PDim(s) = 1 THEN {<<a>> : a \in ch(1)}
             ELSE IF PDim(s) = 2 THEN {<<a, b>> : a \in ch(1), b \in ch(2)}
             ELSE {<<a, b, c>> : a \in ch(1), b \in ch(2), c \in ch(3)}
      nsel(x) == Cardinality({d \in 1..PDim(s) : x[d] # None})
      first(d) == CHOOSE u \in Interior(s.deg[d], s.kv[d]) : \A w \in Interior(s.deg[d], s.kv[d]) : RLe(u, w)
      keep(x) == nsel(x) = 1 \/ (nsel(x) > 1 /\ (allMulti \/ \A d \in 1..PDim(s) : x[d] = None \/ x[d][1] = first(d)))
  IN {<<[d \in 1..PDim(s) |-> IF t[d] = None THEN None ELSE t[d][1]],
        [d \in 1..PDim(s) |-> IF t[d] = None THEN 0 ELSE t[d][2]]>> : t \in {x \in tup : keep(x)}}

\* ---- actions ---------------------------------------------------------------------------
AInsert(prm, num) ==
  /\ "insert" \in Acts
  /\ LET r == InsertKnot(obj, prm, num) IN
     Step([a |-> "insert", prm |-> prm, num |-> num, rejected |-> r.rejected], r.sh)
ARemove(d, u, r) ==
  /\ "remove" \in Acts
  /\ CanRemove(obj, d, u, r) /\ Removable(obj, d, u, r)
  /\ Step([a |-> "remove", d |-> d, u |-> u, r |-> r], RemoveDirForced(obj, d, u, r))
\* operations.remove_knot with several directions in one call: u, then v, then w (each step must be exactly removable)
RECURSIVE RemoveKnotFrom(_, _, _, _)
RemoveKnotFrom(s, prm, num, d) ==     \* [ok |-> all selected directions removable in sequence, sh |-> result]
  IF d > PDim(s) THEN [ok |-> TRUE, sh |-> s]
  ELSE IF prm[d] = None \/ num[d] = 0 THEN RemoveKnotFrom(s, prm, num, d + 1)
  ELSE IF ~(CanRemove(s, d, prm[d], num[d]) /\ Removable(s, d, prm[d], num[d])) THEN [ok |-> FALSE, sh |-> s]
  ELSE RemoveKnotFrom(RemoveDirForced(s, d, prm[d], num[d]), prm, num, d + 1)
ARemoveMulti(prm, num) ==
  /\ "remove" \in Acts
  /\ LET r == RemoveKnotFrom(obj, prm, num, 1) IN
     /\ r.ok
     /\ Step([a |-> "remove_multi", prm |-> prm, num |-> num], r.sh)
ARefine(dens) ==
  /\ "refine" \in Acts
  /\ Step([a |-> "refine", dens |-> dens], Refine(obj, dens))
\* helpers.knot_refinement with an explicit knot_list and add_knot_list (curves): the union is sorted, made
\* unique, bisected `dens` times, and every resulting interior value is raised to multiplicity = degree
ARefineHelper(kl, add, dens) ==
  /\ "refine_helper" \in Acts /\ PDim(obj) = 1
  \* "nothing to insert" is refused by the helper (GeomdlException): not an action of the machine
  /\ \E x \in RangeOf(Bisect(SortedRats(RangeOf(kl) \cup RangeOf(add)), dens)) :
        Mult(x, obj.kv[1]) < obj.deg[1] /\ RLt(DomLo(obj.deg[1], obj.kv[1]), x) /\ RLt(x, DomHi(obj.deg[1], obj.kv[1]))
  /\ Step([a |-> "refine_helper", kl |-> kl, add |-> add, dens |-> dens],
          RefineFrom(obj, 1, Bisect(SortedRats(RangeOf(kl) \cup RangeOf(add)), dens), 1))

\* ---- control-point views of rational objects ---------------------------------------------------------
\* Derived views (what the getters must return for the current definition)
ViewCtrlpts(s) == Ctrlpts(s)
ViewWeights(s) == Weights(s)
ViewCtrlptsW(s) == s.P
\* deterministic replacement data: k selects a variant
NewPts(s, k) == GenNet(Len(s.P), CDim(s) - (IF s.rat THEN 1 ELSE 0), FALSE, 3 + k)
NewWts(s, k) == TLCEval([i \in 1..Len(s.P) |-> NetW(i + 1, k)])
ASetCtrlpts(k) ==      \* obj.ctrlpts = P : weights are kept
  /\ "set_ctrlpts" \in Acts
  /\ Step([a |-> "set_ctrlpts", k |-> k, P |-> NewPts(obj, k)],
          [obj EXCEPT !.P = IF obj.rat THEN Combine(NewPts(obj, k), Weights(obj)) ELSE NewPts(obj, k)])
\* obj.ctrlpts = P with FEWER points than before (curves): the first weights are kept; the knot vector is left as it is,
\* so the definition is incomplete until a knot vector is assigned - the views must already be consistent
AShrinkCtrlpts(k) ==
  /\ "shrink_ctrlpts" \in Acts /\ obj.rat /\ PDim(obj) = 1 /\ obj.size[1] > obj.deg[1] + 1
  /\ LET n == obj.size[1] - 1
         P == SubSeq(NewPts(obj, k), 1, n)
         W == SubSeq(Weights(obj), 1, n) IN
     Step([a |-> "shrink_ctrlpts", k |-> k, P |-> P], [obj EXCEPT !.P = Combine(P, W), !.size = <<n>>])
ASetWeights(k) ==      \* obj.weights = W : unweighted points are kept
  /\ "set_weights" \in Acts /\ obj.rat
  /\ Step([a |-> "set_weights", k |-> k, W |-> NewWts(obj, k)], [obj EXCEPT !.P = Combine(Ctrlpts(obj), NewWts(obj, k))])
ASetCtrlptsW(k) ==     \* obj.ctrlptsw = Pw
  /\ "set_ctrlptsw" \in Acts /\ obj.rat
  /\ LET Pw == GenNet(Len(obj.P), CDim(obj) - 1, TRUE, 5 + k) IN
     Step([a |-> "set_ctrlptsw", k |-> k, Pw |-> Pw], [obj EXCEPT !.P = Pw])
AScaleWeights(c) ==    \* obj.weights = [c * w for w in obj.weights]
  /\ "scale_weights" \in Acts /\ obj.rat
  /\ LET W == TLCEval([i \in 1..Len(obj.P) |-> RMul(c, Weights(obj)[i])]) IN
     Step([a |-> "scale_weights", c |-> c, W |-> W], [obj EXCEPT !.P = Combine(Ctrlpts(obj), W)])
\* pw = obj.ctrlptsw; pw[i] = pt; obj.ctrlptsw = pw : the list a getter returned is edited and assigned back
AEditCtrlptsW(i, k) ==
  /\ "edit_ctrlptsw" \in Acts /\ obj.rat /\ i <= Len(obj.P)
  /\ LET pt == GenNet(Len(obj.P), CDim(obj) - 1, TRUE, 7 + k)[i] IN
     Step([a |-> "edit_ctrlptsw", i |-> i, k |-> k, pt |-> pt], [obj EXCEPT !.P[i] = pt])
\* q = obj.ctrlpts; q[i] = pt; obj.ctrlpts = q on a non-rational object: the list the getter returned is edited and assigned back
AEditCtrlpts(i, k) ==
  /\ "edit_ctrlpts" \in Acts /\ ~obj.rat /\ i <= Len(obj.P)
  /\ LET pt == GenNet(Len(obj.P), CDim(obj), FALSE, 7 + k)[i] IN
     Step([a |-> "edit_ctrlpts", i |-> i, k |-> k, pt |-> pt], [obj EXCEPT !.P[i] = pt])
\* cp = copy.deepcopy(obj): one of the two objects has all its weights multiplied by c and its views read, the history
\* continues on the other one (keep = "orig" | "copy"), whose definition is that of obj: copies share no state
AFork(c, keep) ==
  /\ "fork" \in Acts /\ obj.rat
  /\ LET W == TLCEval([i \in 1..Len(obj.P) |-> RMul(c, Weights(obj)[i])]) IN
     Step([a |-> "fork", c |-> c, keep |-> keep, W |-> W, P |-> Ctrlpts(obj)], obj)
ARead(v) ==            \* a getter is called (an action: it may populate caches in the implementation)
  /\ "read" \in Acts
  /\ Step([a |-> "read", v |-> v], obj)

\* ---- structure-changing mutators and sampling ----------------------------------------------------------
AReverse ==   /\ "reverse" \in Acts /\ PDim(obj) = 1 /\ Step([a |-> "reverse"], ReverseCurve(obj))
ATranspose == /\ "transpose" \in Acts /\ PDim(obj) = 2 /\ Step([a |-> "transpose"], Transpose(obj))
AFlip ==      /\ "flip" \in Acts /\ PDim(obj) = 2 /\ Step([a |-> "flip"], Flip(obj))
ATranslate(vec) == /\ "translate" \in Acts /\ Step([a |-> "translate", vec |-> vec], Translate(obj, vec))
AScale(f) == /\ "scale" \in Acts /\ Step([a |-> "scale", f |-> f], ScaleBy(obj, f))
\* sampling density of ONE direction (surfaces, volumes)
ASampleSizeDir(d, n) == /\ "sample_size_dir" \in Acts /\ PDim(obj) > 1 /\ d <= PDim(obj) /\ Step([a |-> "sample_size_dir", d |-> d, n |-> n], obj)
\* sampling density is part of the object state but not of `def`; the step is recorded so that the replay applies it
ASampleSize(n) == /\ "sample_size" \in Acts /\ Step([a |-> "sample_size", n |-> n], obj)

Emit == hist # <<>> => PrintT("CASE " \o ToJson([sh0 |-> sh0, hist |-> hist, obj |-> obj]))
=============================================================================
