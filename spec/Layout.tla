------------------------------- MODULE Layout -------------------------------
(***************************************************************************)
(* One control-net layout convention: flat index v + size_v (u + size_u w). *)
(* Extraction of control rows / slabs as curves / surfaces, construction of *)
(* surfaces / volumes from them, sweeping, the 2-D view, row-order flips.    *)
(***************************************************************************)
EXTENDS Ops

\* Surface.ctrlpts2d[u][v]
Ctrlpts2D(s) == TLCEval([iu \in 1..s.size[1] |-> [iv \in 1..s.size[2] |-> s.P[(iv - 1) + s.size[2] * (iu - 1) + 1]]])
\* compatibility.flip_ctrlpts_u: u-row order (u fastest) -> v-row order (v fastest);  flip_ctrlpts: the inverse
FlipCtrlptsU(P, su, sv) == TLCEval([x \in 1..(su * sv) |-> LET i == (x - 1) \div sv j == (x - 1) % sv IN P[i + j * su + 1]])
FlipCtrlpts(P, su, sv) == TLCEval([x \in 1..(su * sv) |-> LET i == (x - 1) \div su j == (x - 1) % su IN P[i + j * sv + 1]])
\* control_points.*Manager.find_index
MgrIndexS(size, iu, iv) == iv + iu * size[2]
MgrIndexV(size, iu, iv, iw) == iv + iu * size[2] + iw * size[1] * size[2]

Curve1(p, U, P, rat) == [deg |-> <<p>>, kv |-> <<U>>, size |-> <<Len(P)>>, rat |-> rat, P |-> P]
\* construct.extract_curves: "u" = curves along u (one per v index), "v" = curves along v (one per u index)
ExtractCurves(s) ==
  [u |-> TLCEval([iv \in 1..s.size[2] |-> Curve1(s.deg[1], s.kv[1], TLCEval([iu \in 1..s.size[1] |-> s.P[(iv - 1) + s.size[2] * (iu - 1) + 1]]), s.rat)]),
   v |-> TLCEval([iu \in 1..s.size[1] |-> Curve1(s.deg[2], s.kv[2], TLCEval([iv \in 1..s.size[2] |-> s.P[(iv - 1) + s.size[2] * (iu - 1) + 1]]), s.rat)])]
\* construct.construct_surface(dir, *curves): the curve index runs along `dir`, the curves lie along the other direction
ConstructSurface(dir, cs, degO, kvO) ==
  LET n == Len(cs) m == cs[1].size[1] IN
  IF dir = "u"
  THEN [deg |-> <<degO, cs[1].deg[1]>>, kv |-> <<kvO, cs[1].kv[1]>>, size |-> <<n, m>>, rat |-> cs[1].rat,
        P |-> TLCEval([x \in 1..(n * m) |-> LET iu == (x - 1) \div m iv == (x - 1) % m IN cs[iu + 1].P[iv + 1]])]
  ELSE [deg |-> <<cs[1].deg[1], degO>>, kv |-> <<cs[1].kv[1], kvO>>, size |-> <<m, n>>, rat |-> cs[1].rat,
        P |-> TLCEval([x \in 1..(n * m) |-> LET iu == (x - 1) \div n iv == (x - 1) % n IN cs[iv + 1].P[iu + 1]])]
Surf2(dg, kvs, su, sv, P, rat) == [deg |-> dg, kv |-> kvs, size |-> <<su, sv>>, rat |-> rat, P |-> P]
VP(s, iu, iv, iw) == s.P[iv + s.size[2] * (iu + s.size[1] * iw) + 1]
\* construct.extract_surfaces: "uv" (one per w), "uw" (one per v), "vw" (one per u); in each the first named direction is u
ExtractSurfaces(s) ==
  LET su == s.size[1] sv == s.size[2] sw == s.size[3] IN
  [uv |-> TLCEval([k \in 1..sw |-> Surf2(<<s.deg[1], s.deg[2]>>, <<s.kv[1], s.kv[2]>>, su, sv,
            TLCEval([x \in 1..(su * sv) |-> VP(s, (x - 1) \div sv, (x - 1) % sv, k - 1)]), s.rat)]),
   uw |-> TLCEval([k \in 1..sv |-> Surf2(<<s.deg[1], s.deg[3]>>, <<s.kv[1], s.kv[3]>>, su, sw,
            TLCEval([x \in 1..(su * sw) |-> VP(s, (x - 1) \div sw, k - 1, (x - 1) % sw)]), s.rat)]),
   vw |-> TLCEval([k \in 1..su |-> Surf2(<<s.deg[2], s.deg[3]>>, <<s.kv[2], s.kv[3]>>, sv, sw,
            TLCEval([x \in 1..(sv * sw) |-> VP(s, k - 1, (x - 1) \div sw, (x - 1) % sw)]), s.rat)])]
\* construct.construct_volume(dir, *surfaces): surface index runs along `dir`; the surfaces' (u, v) become the other two
\* directions in order
ConstructVolume(dir, ss, degO, kvO) ==
  LET n == Len(ss) a == ss[1].size[1] b == ss[1].size[2]
      SP(k, i, j) == ss[k].P[j + b * i + 1]          \* point (i, j) of surface k, all 0-based except k
      size == IF dir = "u" THEN <<n, a, b>> ELSE IF dir = "v" THEN <<a, n, b>> ELSE <<a, b, n>>
      dg == IF dir = "u" THEN <<degO, ss[1].deg[1], ss[1].deg[2]>> ELSE IF dir = "v" THEN <<ss[1].deg[1], degO, ss[1].deg[2]>>
            ELSE <<ss[1].deg[1], ss[1].deg[2], degO>>
      kvs == IF dir = "u" THEN <<kvO, ss[1].kv[1], ss[1].kv[2]>> ELSE IF dir = "v" THEN <<ss[1].kv[1], kvO, ss[1].kv[2]>>
             ELSE <<ss[1].kv[1], ss[1].kv[2], kvO>>
  IN [deg |-> dg, kv |-> kvs, size |-> size, rat |-> ss[1].rat,
      P |-> TLCEval([x \in 1..(n * a * b) |->
              LET c == Coord(size, x) IN
              IF dir = "u" THEN SP(c[1] + 1, c[2], c[3]) ELSE IF dir = "v" THEN SP(c[2] + 1, c[1], c[3]) ELSE SP(c[3] + 1, c[1], c[2])])]
\* sweeping.sweep_vector: the shape and its translate joined linearly
LinKV == <<Zero, Zero, One, One>>
Sweep(s, vec) == IF PDim(s) = 1 THEN ConstructSurface("u", <<s, Translate(s, vec)>>, 1, LinKV)
                 ELSE ConstructVolume("w", <<s, Translate(s, vec)>>, 1, LinKV)
=============================================================================
