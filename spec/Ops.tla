-------------------------------- MODULE Ops --------------------------------
(***************************************************************************)
(* Object-level results of the geometric operations (what a public call    *)
(* does to `def`).  Curve-level algorithms act on one row of control       *)
(* points; MapRows applies them along one parametric direction of a        *)
(* curve, surface or volume.                                               *)
(***************************************************************************)
EXTENDS Shape

\* ---- rows along a direction -------------------------------------------------
Coord(size, x) == LET z == x - 1 IN <<(z \div size[2]) % size[1], z % size[2], z \div (size[2] * size[1])>>
IdxC(size, c) == Idx(size, c[1], c[2], c[3])
Bases(size, d) == {c \in (0..(size[1] - 1)) \X (0..(size[2] - 1)) \X (0..(size[3] - 1)) : c[d] = 0}
RowOf(s, d, c0) == LET t == D3(s) IN TLCEval([i \in 1..t.size[d] |-> s.P[IdxC(t.size, [c0 EXCEPT ![d] = i - 1])]])
\* new flat net after applying F to every row along direction d (rows get length newLen)
MapRows(s, d, F(_), newLen) ==
  LET t == D3(s)
      tab == TLCEval([c0 \in Bases(t.size, d) |-> F(RowOf(s, d, c0))])
      nsize == [t.size EXCEPT ![d] = newLen]
  IN TLCEval([x \in 1..(nsize[1] * nsize[2] * nsize[3]) |-> LET c == Coord(nsize, x) IN tab[[c EXCEPT ![d] = 0]][c[d] + 1]])
WithDir(s, d, U, newLen, P) ==
  TLCEval([s EXCEPT !.kv = [s.kv EXCEPT ![d] = U], !.size = [s.size EXCEPT ![d] = newLen], !.P = P])

\* ---- knot insertion (Boehm) -----------------------------------------------------
InsKV1(p, U, n, u) == LET k == SpanDef(p, U, n, u) IN
  TLCEval([i \in 1..(Len(U) + 1) |-> IF i <= k + 1 THEN U[i] ELSE IF i = k + 2 THEN u ELSE U[i - 1]])
InsRow1(p, U, row, u) ==
  LET n == Len(row) k == SpanDef(p, U, n, u) IN
  TLCEval([i \in 1..(n + 1) |->
     LET j == i - 1 IN
     IF j <= k - p THEN row[j + 1]
     ELSE IF j >= k + 1 THEN row[j]
     ELSE LET al == RQuot(RSub(u, At(U, j)), RSub(At(U, j + p), At(U, j))) IN VLerp(al, row[j + 1], row[j])])
RECURSIVE InsKV(_, _, _, _, _)
InsKV(p, U, n, u, r) == IF r = 0 THEN U ELSE InsKV(p, InsKV1(p, U, n, u), n + 1, u, r - 1)
RECURSIVE InsRow(_, _, _, _, _)
InsRow(p, U, row, u, r) == IF r = 0 THEN row ELSE InsRow(p, InsKV1(p, U, Len(row), u), InsRow1(p, U, row, u), u, r - 1)
CanInsert(s, d, u, r) ==
  /\ r >= 1 /\ InDomain(s.deg[d], s.kv[d], u)
  /\ r <= s.deg[d] - Mult(u, s.kv[d])
InsertDir(s, d, u, r) ==
  LET p == s.deg[d] U == s.kv[d] n == s.size[d] IN
  WithDir(s, d, InsKV(p, U, n, u, r), n + r, MapRows(s, d, LAMBDA row : InsRow(p, U, row, u, r), n + r))
\* operations.insert_knot: directions processed in order u, v, w; a direction whose count exceeds
\* degree - multiplicity raises and leaves the earlier directions applied.  prm[d] = <<>> means None.
RECURSIVE InsertKnotFrom(_, _, _, _)
InsertKnotFrom(s, prm, num, d) ==
  IF d > PDim(s) THEN [sh |-> s, rejected |-> FALSE]
  ELSE IF prm[d] = <<>> \/ num[d] = 0 THEN InsertKnotFrom(s, prm, num, d + 1)
  ELSE IF ~CanInsert(s, d, prm[d], num[d]) THEN [sh |-> s, rejected |-> TRUE]
  ELSE InsertKnotFrom(InsertDir(s, d, prm[d], num[d]), prm, num, d + 1)
InsertKnot(s, prm, num) == InsertKnotFrom(s, prm, num, 1)

\* ---- knot removal: book-faithful transcription of A5.8 on one row ------------------
\* force = TRUE skips the removability test (Eq 5.30), tolerance 0 otherwise
RECURSIVE RmInner(_, _, _, _, _, _)
RmInner(pp, UU, Pw, u, t, st) ==
  IF st.j - st.i > t THEN
    LET ord == pp + 1
        alfi == RDiv(RSub(u, UU[st.i + 1]), RSub(UU[st.i + ord + t + 1], UU[st.i + 1]))
        alfj == RDiv(RSub(u, UU[st.j - t + 1]), RSub(UU[st.j + ord + 1], UU[st.j - t + 1]))
        tii == VScale(RInv(alfi), VAdd(Pw[st.i + 1], VScale(RSub(alfi, One), st.temp[st.ii - 1])))
        tmp1 == [st.temp EXCEPT ![st.ii] = tii]
        tjj == VScale(RInv(RSub(One, alfj)), VAdd(Pw[st.j + 1], VScale(RNeg(alfj), tmp1[st.jj + 1])))
        tmp2 == [tmp1 EXCEPT ![st.jj] = tjj]
    IN RmInner(pp, UU, Pw, u, t, [i |-> st.i + 1, j |-> st.j - 1, ii |-> st.ii + 1, jj |-> st.jj - 1, temp |-> tmp2])
  ELSE st
RECURSIVE RmSave(_, _, _, _, _, _)
RmSave(Pw, temp, off, t, i, j) ==
  IF j - i > t THEN RmSave([[Pw EXCEPT ![i + 1] = temp[i - off]] EXCEPT ![j + 1] = temp[j - off]], temp, off, t, i + 1, j - 1) ELSE Pw
RECURSIVE RmOuter(_, _, _, _, _, _, _, _, _)
RmOuter(pp, UU, Pw, u, num, t, first, last, force) ==
  IF t = num THEN [t |-> t, Pw |-> Pw] ELSE
  LET off == first - 1
      d == Len(Pw[1])
      temp0 == [x \in 0..(2 * pp) |-> VZero(d)]
      temp1 == [[temp0 EXCEPT ![0] = Pw[off + 1]] EXCEPT ![last + 1 - off] = Pw[last + 2]]
      st == RmInner(pp, UU, Pw, u, t, [i |-> first, j |-> last, ii |-> 1, jj |-> last - off, temp |-> temp1])
      ok == IF force THEN TRUE
            ELSE IF st.j - st.i < t THEN st.temp[st.ii - 1] = st.temp[st.jj + 1]
            ELSE LET alfi == RDiv(RSub(u, UU[st.i + 1]), RSub(UU[st.i + pp + 1 + t + 1], UU[st.i + 1]))
                 IN Pw[st.i + 1] = VLerp(alfi, st.temp[st.ii + t + 1], st.temp[st.ii - 1])
  IN IF ~ok THEN [t |-> t, Pw |-> Pw]
     ELSE RmOuter(pp, UU, RmSave(Pw, st.temp, off, t, first, last), u, num, t + 1, first - 1, last + 1, force)
RECURSIVE RmIJ(_, _, _, _)
RmIJ(k, t, i, j) == IF k >= t THEN <<i, j>> ELSE IF k % 2 = 1 THEN RmIJ(k + 1, t, i + 1, j) ELSE RmIJ(k + 1, t, i, j - 1)
RemoveKV(p, U, n, u, t) == LET r == SpanDef(p, U, n, u) IN
  TLCEval([x \in 1..(Len(U) - t) |-> IF x - 1 <= r - t THEN U[x] ELSE U[x + t]])
\* returns [t |-> knots actually removed, row |-> new row]
RemoveRow(pp, UU, Pw, u, num, force) ==
  LET n == Len(Pw) - 1
      s == Mult(u, UU)  r == SpanDef(pp, UU, n + 1, u)
      fout == (2 * r - s - pp) \div 2
      res == RmOuter(pp, UU, Pw, u, num, 0, r - pp, r - s, force)
      t == res.t
  IN IF t = 0 THEN [t |-> 0, row |-> Pw] ELSE
     LET ij == RmIJ(1, t, fout, fout)
         i == ij[1]  j == ij[2]
     IN [t |-> t, row |-> TLCEval([x \in 1..(n + 1 - t) |-> IF x - 1 < j THEN res.Pw[x] ELSE res.Pw[x + (i + 1 - j)]])]
CanRemove(s, d, u, r) == r >= 1 /\ r <= Mult(u, s.kv[d]) /\ RLt(DomLo(s.deg[d], s.kv[d]), u) /\ RLt(u, DomHi(s.deg[d], s.kv[d]))
\* candidate result: every row reduced by the forced algorithm
RemoveDirForced(s, d, u, r) ==
  LET p == s.deg[d] U == s.kv[d] n == s.size[d] IN
  WithDir(s, d, RemoveKV(p, U, n, u, r), n - r, MapRows(s, d, LAMBDA row : RemoveRow(p, U, row, u, r, TRUE).row, n - r))
\* DEFINITION of exact removability: some shape with r fewer copies re-inserts to s.  Insertion is injective
\* (the refined basis is linearly independent), so the candidate of the forced algorithm is the only possible one.
Removable(s, d, u, r) == CanRemove(s, d, u, r) /\ InsertDir(RemoveDirForced(s, d, u, r), d, u, r) = s
\* every row passes the book's own removability test (tolerance 0)
RowsRemovable(s, d, u, r) ==
  \A c0 \in Bases(D3(s).size, d) : RemoveRow(s.deg[d], s.kv[d], RowOf(s, d, c0), u, r, FALSE).t = r

\* ---- knot refinement ----------------------------------------------------------------
RECURSIVE Bisect(_, _)
Bisect(knots, dens) ==   \* knots: increasing sequence
  IF dens = 0 THEN knots ELSE
  Bisect(TLCEval([i \in 1..(2 * Len(knots) - 1) |-> IF i % 2 = 1 THEN knots[(i + 1) \div 2] ELSE RMid(knots[i \div 2], knots[i \div 2 + 1])]), dens - 1)
\* knot list of helpers.knot_refinement: distinct knots of kv[p:-p], bisected `density` times
RefineKnots(p, U, dens) == Bisect(SortedRats({U[i] : i \in (p + 1)..(Len(U) - p)}), dens)
RECURSIVE RefineFrom(_, _, _, _)
RefineFrom(s, d, knots, i) ==
  IF i > Len(knots) THEN s ELSE
  LET r == s.deg[d] - Mult(knots[i], s.kv[d]) IN
  RefineFrom(IF r > 0 /\ RLt(DomLo(s.deg[d], s.kv[d]), knots[i]) /\ RLt(knots[i], DomHi(s.deg[d], s.kv[d]))
             THEN InsertDir(s, d, knots[i], r) ELSE s, d, knots, i + 1)
RefineDir(s, d, dens) == RefineFrom(s, d, RefineKnots(s.deg[d], s.kv[d], dens), 1)
RECURSIVE RefineAll(_, _, _)
RefineAll(s, dens, d) == IF d > PDim(s) THEN s ELSE RefineAll(IF dens[d] > 0 THEN RefineDir(s, d, dens[d]) ELSE s, dens, d + 1)
Refine(s, dens) == RefineAll(s, dens, 1)

\* ---- splitting and Bezier decomposition -----------------------------------------------
\* both pieces re-normalised to [0,1] (new objects normalise their knot vectors)
SplitDir(s, d, u) ==
  LET p == s.deg[d]
      f == InsertDir(s, d, u, p - Mult(u, s.kv[d]))      \* u now has multiplicity p
      U == f.kv[d]
      nlo == Cardinality({i \in 1..Len(U) : RLt(U[i], u)})           \* knots below u
      kv1 == TLCEval([i \in 1..(nlo + p + 1) |-> IF i <= nlo THEN U[i] ELSE u])
      kv2 == TLCEval([i \in 1..(Len(U) - nlo - p + p + 1) |-> IF i <= p + 1 THEN u ELSE U[nlo + p + (i - (p + 1))]])
      n1 == nlo                                                      \* Len(kv1) - p - 1
      n2 == f.size[d] - n1 + 1
      P1 == MapRows(f, d, LAMBDA row : [i \in 1..n1 |-> row[i]], n1)
      P2 == MapRows(f, d, LAMBDA row : [i \in 1..n2 |-> row[n1 - 1 + i]], n2)
      \* the pieces are new objects: they normalise the knot vectors of every direction
      NormAll(x) == [x EXCEPT !.kv = [e \in 1..PDim(x) |-> NormalizeKV(x.kv[e])]]
  IN <<NormAll(WithDir(f, d, kv1, n1, P1)), NormAll(WithDir(f, d, kv2, n2, P2))>>
CanSplit(s, d, u) == RLt(DomLo(s.deg[d], s.kv[d]), u) /\ RLt(u, DomHi(s.deg[d], s.kv[d]))
InteriorKnots(p, U) == [i \in 1..(Len(U) - 2 * (p + 1)) |-> U[p + 1 + i]]
RECURSIVE DecomposeDir(_, _)
DecomposeDir(s, d) ==   \* repeated splitting at the first interior knot
  LET ik == InteriorKnots(s.deg[d], s.kv[d]) IN
  IF ik = <<>> THEN <<s>> ELSE LET pc == SplitDir(s, d, ik[1]) IN <<pc[1]>> \o DecomposeDir(pc[2], d)

\* ---- reversal, transposition, flipping ------------------------------------------------------------
\* abstract.Curve.reverse: reversed control points, knots k -> max - k in reverse order
ReverseCurve(s) == LET U == s.kv[1] IN
  [s EXCEPT !.P = RevSeq(s.P), !.kv = <<RevSeq(TLCEval([i \in 1..Len(U) |-> RSub(Last(U), U[i])]))>>]
\* operations.transpose: u and v swap roles; new point (u', v') is the old point (v', u')
Transpose(s) ==
  LET su == s.size[1] sv == s.size[2] IN
  [s EXCEPT !.deg = <<s.deg[2], s.deg[1]>>, !.kv = <<s.kv[2], s.kv[1]>>, !.size = <<sv, su>>,
            !.P = TLCEval([x \in 1..(su * sv) |-> LET nu == (x - 1) \div su nv == (x - 1) % su IN s.P[nu + sv * nv + 1]])]
\* operations.flip: the flat control net in reverse order
Flip(s) == [s EXCEPT !.P = RevSeq(s.P)]

\* ---- affine maps act on the unweighted points, weights unchanged ---------------------------------------
MapPoints(s, F(_)) ==
  [s EXCEPT !.P = IF s.rat
                  THEN TLCEval([i \in 1..Len(s.P) |-> LET w == s.P[i][CDim(s)] IN VScale(w, F(Project(s.P[i]))) \o <<w>>])
                  ELSE TLCEval([i \in 1..Len(s.P) |-> F(s.P[i])])]
Translate(s, vec) == MapPoints(s, LAMBDA p : VAdd(p, vec))
ScaleBy(s, c) == MapPoints(s, LAMBDA p : VScale(c, p))
\* rotation by the angle with cosine co and sine si about coordinate axis ax (0 = x, 1 = y, 2 = z) through `origin`
\* (for 2-D points only ax = 2 is meaningful)
Rot(p, ax, co, si) ==
  IF Len(p) = 2 THEN <<RSub(RMul(p[1], co), RMul(p[2], si)), RAdd(RMul(p[1], si), RMul(p[2], co))>>
  ELSE IF ax = 0 THEN <<p[1], RSub(RMul(p[2], co), RMul(p[3], si)), RAdd(RMul(p[2], si), RMul(p[3], co))>>
  ELSE IF ax = 1 THEN <<RAdd(RMul(p[1], co), RMul(p[3], si)), p[2], RSub(RMul(p[3], co), RMul(p[1], si))>>
  ELSE <<RSub(RMul(p[1], co), RMul(p[2], si)), RAdd(RMul(p[1], si), RMul(p[2], co)), p[3]>>
RotateAbout(s, origin, ax, co, si) == MapPoints(s, LAMBDA p : VAdd(Rot(VSub(p, origin), ax, co, si), origin))

\* affine reparametrisation test: piece(t) = orig(lo + t (hi - lo)) in direction d, at deg+1 samples per span of the piece
PieceMatches(piece, orig, d, lo, hi) ==
  \A prm \in SampleParams(piece) :
     PointH(piece, prm) = PointH(orig, [prm EXCEPT ![d] = RAdd(lo, RMul(prm[d], RSub(hi, lo)))])
=============================================================================
