------------------------------- MODULE Extras -------------------------------
(***************************************************************************)
(* Behaviour of geomdl that none of the twenty listed properties speaks    *)
(* about, specified so that the model of the system keeps growing:         *)
(* point re-ordering helpers for drawing (utilities), the remaining vector *)
(* helpers (linalg), planar predicates of the trimming module, voxel faces, *)
(* the control-point grid generator, vertex arithmetic, adding a dimension. *)
(* Everything here is a DEFINITION; MC_X01 enumerates cases and checks the  *)
(* theorems stated next to them; mbt/props/x01.py replays the cases.        *)
(* Deviations found here are reported as observations of the suite X01,     *)
(* never against one of the listed properties.                              *)
(***************************************************************************)
EXTENDS Rat, SeqX

Rev(s) == [i \in 1..Len(s) |-> s[Len(s) + 1 - i]]
\* ---- utilities ---------------------------------------------------------------
\* make_zigzag: rows of `cols` points; every second row is traversed backwards (boustrophedon)
ZigZag(pts, cols) ==
  [i \in 1..Len(pts) |-> LET r == (i - 1) \div cols  c == (i - 1) % cols IN
                          IF r % 2 = 0 THEN pts[i] ELSE pts[r * cols + (cols - c)]]
\* make_quad: the reversed row zig-zag followed by a column zig-zag (rows of the v index, every second one backwards)
QuadCols(pts, su, sv) ==
  [x \in 1..(su * sv) |-> LET row == (x - 1) \div su  k == (x - 1) % su
                              col == IF row % 2 = 0 THEN k ELSE su - 1 - k IN pts[row + col * sv + 1]]
MakeQuad(pts, su, sv) == Rev(ZigZag(pts, sv)) \o QuadCols(pts, su, sv)
\* make_quadtree: the point and its four neighbours (u+1, v+1, u-1, v-1); outside the net the edge is extrapolated
QuadTree(pts, su, sv, extrapolate) ==
  [x \in 1..(su * sv) |->
     LET u == (x - 1) \div sv  v == (x - 1) % sv
         P(a, b) == pts[b + a * sv + 1]
         Ext(p, q) == VSub(VScale(RI(2), p), q)              \* p + (p - q)
         nb == << IF u + 1 < su THEN <<P(u + 1, v)>> ELSE IF extrapolate THEN <<Ext(P(u, v), P(u - 1, v))>> ELSE <<>>,
                  IF v + 1 < sv THEN <<P(u, v + 1)>> ELSE IF extrapolate THEN <<Ext(P(u, v), P(u, v - 1))>> ELSE <<>>,
                  IF u - 1 >= 0 THEN <<P(u - 1, v)>> ELSE IF extrapolate THEN <<Ext(P(u, v), P(u + 1, v))>> ELSE <<>>,
                  IF v - 1 >= 0 THEN <<P(u, v - 1)>> ELSE IF extrapolate THEN <<Ext(P(u, v), P(u, v + 1))>> ELSE <<>> >>
     IN <<P(u, v)>> \o nb[1] \o nb[2] \o nb[3] \o nb[4]]
\* ---- linalg -------------------------------------------------------------------
VecMean(vs) == VScale(R(1, Len(vs)), [k \in 1..Len(vs[1]) |-> RSum([i \in 1..Len(vs) |-> vs[i][k]])])
PointMid(a, b) == VScale(Half, VAdd(a, b))
VecSum(a, b, c) == VAdd(a, VScale(c, b))
VecGenerate(s, e) == VSub(e, s)
MatScalar(m, c) == [i \in 1..Len(m) |-> VScale(c, m[i])]
\* frange(start, stop, step): start, start + step, ... while below stop, then stop itself when it was not reached
RECURSIVE FRangeFrom(_, _, _, _)
FRangeFrom(x0, i, stop, step) ==
  LET x == RAdd(x0, RMul(RI(i), step)) IN
  IF RLt(RAdd(x, RDiv(step, RI(2))), stop) THEN <<x>> \o FRangeFrom(x0, i + 1, stop, step)
  ELSE IF RGt(stop, x) THEN <<x, stop>> ELSE <<x>>
FRange(start, stop, step) == FRangeFrom(start, 0, stop, step)
\* ---- trimming: planar predicates --------------------------------------------------
ParBox(dom, last) == LET v == << <<dom[1][1], dom[2][1]>>, <<dom[1][2], dom[2][1]>>, <<dom[1][2], dom[2][2]>>, <<dom[1][1], dom[2][2]>> >>
                     IN IF last THEN v \o <<v[1]>> ELSE v
CrossZ(p1, p2, p3) == RSub(RMul(RSub(p2[1], p1[1]), RSub(p3[2], p2[2])), RMul(RSub(p2[2], p1[2]), RSub(p3[1], p2[1])))
\* the module's convention: -1 for a positive cross product (left turn), +1 for a negative one, 0 when collinear
DetectCCW(p1, p2, p3) == LET z == CrossZ(p1, p2, p3) IN IF RGt(z, Zero) THEN -1 ELSE IF RLt(z, Zero) THEN 1 ELSE 0
\* a test point "intersects" a segment's carrier line when its distance from the line is (numerically) zero
OnLine(s, e, t) == CrossZ(s, e, t) = Zero \/ RSub(RMul(RSub(e[2], s[2]), RSub(t[1], s[1])), RMul(RSub(e[1], s[1]), RSub(t[2], s[2]))) = Zero
\* ---- voxel faces ----------------------------------------------------------------------
BBFaces(v) ==
  LET lo == v[1] hi == v[2]
      p1 == lo  p2 == <<hi[1], lo[2], lo[3]>>  p3 == <<hi[1], hi[2], lo[3]>>  p4 == <<lo[1], hi[2], lo[3]>>
      p5 == <<lo[1], lo[2], hi[3]>>  p6 == <<hi[1], lo[2], hi[3]>>  p7 == hi  p8 == <<lo[1], hi[2], hi[3]>>
  IN << <<p1, p2, p3, p4>>, <<p1, p2, p6, p5>>, <<p2, p3, p7, p6>>, <<p3, p4, p8, p7>>, <<p1, p4, p8, p5>>, <<p5, p6, p7, p8>> >>
\* every face of a box lies in one coordinate plane of the box
FacePlanar(f) == \E k \in 1..3 : \A i \in 1..4 : f[i][k] = f[1][k]
\* ---- control point grid ------------------------------------------------------------------
GridPts(sx, sy, nu, nv, z) == [i \in 1..(nu + 1) |-> [j \in 1..(nv + 1) |-> <<RDiv(RMul(RI(i - 1), sx), RI(nu)), RDiv(RMul(RI(j - 1), sy), RI(nv)), z>>]]
\* ---- adding a dimension ------------------------------------------------------------------------
AddDimPts(P, off) == [i \in 1..Len(P) |-> P[i] \o <<off>>]
=============================================================================
