SPECIFICATION Spec
CONSTANTS
  CurveP = {1,2,3}
  Seed = 1
INVARIANT T_Affine
INVARIANT T_RoundTrip
INVARIANT EmitC
CHECK_DEADLOCK FALSE
