SPECIFICATION SpecB
CONSTANTS
  MaxGrid = 3
  Seed = 1
INVARIANT T_Inverse
INVARIANT T_Convert
INVARIANT EmitB
CHECK_DEADLOCK FALSE
