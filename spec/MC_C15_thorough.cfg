SPECIFICATION Spec
CONSTANTS
  MaxS = 10
INVARIANT T_Valid
INVARIANT T_TrimClasses
INVARIANT EmitC
CHECK_DEADLOCK FALSE
