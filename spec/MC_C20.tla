------------------------------ MODULE MC_C20 ------------------------------
(* C20: planar predicates and spatial queries agree with exact arithmetic.   *)
EXTENDS Planar, Json
CONSTANTS RayGrid, PolyGrid, MaxPolyV, HullGrid, MaxHullN
VARIABLES c, out
vars == <<c, out>>
G2(n) == (0..n) \X (0..n)
G3(n) == (0..n) \X (0..n) \X (0..n)
\* rays are chosen in two steps (first ray in Init, second in Next) so that the work is spread over the workers
Rays2 == {<<a, b>> \in G2(RayGrid) \X G2(RayGrid) : a # b}
Rays3 == {<<a, b>> \in G3(1) \X G3(1) : a # b}
Polys(n) == {p \in [1..n -> G2(PolyGrid)] : p[1] = <<0, 0>> \/ TRUE}
Init == /\ c \in {[kind |-> "ray2", r1 |-> r] : r \in Rays2} \cup {[kind |-> "ray3", r1 |-> r] : r \in Rays3}
               \cup {[kind |-> "poly", n |-> n] : n \in 3..MaxPolyV} \cup {[kind |-> "hull", n |-> n] : n \in 3..MaxHullN}
        /\ out = [op |-> "init"]
ARay(r2) == /\ out.op = "init" /\ c.kind \in {"ray2", "ray3"}
            /\ out' = [op |-> "ray", r2 |-> r2, res |-> RayIntersect(c.r1, r2)] /\ UNCHANGED c
\* polygons: sequences of n distinct grid vertices, closed, simple; every half-integer query point off the boundary
APoly(vs) == /\ out.op = "init" /\ c.kind = "poly"
             /\ LET poly == vs \o <<vs[1]>> IN
                /\ IsSimple(poly)
                /\ LET Q == {q \in (-1..(2 * PolyGrid + 1)) \X (-1..(2 * PolyGrid + 1)) : ~OnBoundary(q, poly)} IN
                   out' = [op |-> "poly", poly |-> poly, area2 |-> Area2(poly),
                           inside |-> {q \in Q : InsideDef(q, poly)}, outside |-> {q \in Q : ~InsideDef(q, poly)}]
             /\ UNCHANGED c
AHull(S) == /\ out.op = "init" /\ c.kind = "hull"
            /\ out' = [op |-> "hull", S |-> S, H |-> Hull(S)] /\ UNCHANGED c
VertexSeqs(n) == {v \in [1..n -> G2(PolyGrid)] : (\A i, j \in 1..n : i # j => v[i] # v[j]) /\ (\A i \in 2..n : v[1] = v[i] \/ LexLess(v[1], v[i]))}
Next == \/ c.kind = "ray2" /\ \E r \in Rays2 : ARay(r)
        \/ c.kind = "ray3" /\ \E r \in Rays3 : ARay(r)
        \/ c.kind = "poly" /\ \E v \in VertexSeqs(c.n) : APoly(v)
        \/ c.kind = "hull" /\ \E S \in {T \in SUBSET G2(HullGrid) : Cardinality(T) = c.n} : AHull(S)
Spec == Init /\ [][Next]_vars
T_Ray == out.op = "ray" /\ out.res.status = "intersect" => RayPointsCoincide(c.r1, out.r2, out.res)
T_Ray2D == out.op = "ray" /\ c.kind = "ray2" => out.res.status # "skew"
T_Hull == out.op = "hull" => HullOK(out.S, out.H)
\* for a simple polygon the doubled area equals (#inside lattice relation is not needed); orientation sign is well defined
T_Poly == out.op = "poly" => out.area2 # 0
EmitC == out.op # "init" => PrintT("CASE " \o ToJson([c |-> c, out |-> out]))
=============================================================================
