SPECIFICATION Spec
CONSTANTS
  MaxVox = 6
  Seed = 2
INVARIANT T_Covers
INVARIANT T_Touching
INVARIANT T_CubesCover
INVARIANT EmitC
CHECK_DEADLOCK FALSE
