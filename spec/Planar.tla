------------------------------- MODULE Planar -------------------------------
(* Exact planar / spatial predicates over integer points (definitions).      *)
EXTENDS Integers, Sequences, FiniteSets, TLC

Sub(a, b) == [k \in 1..Len(a) |-> a[k] - b[k]]
Dot(a, b) == IF Len(a) = 2 THEN a[1] * b[1] + a[2] * b[2] ELSE a[1] * b[1] + a[2] * b[2] + a[3] * b[3]
To3(a) == IF Len(a) = 3 THEN a ELSE <<a[1], a[2], 0>>
Cross3(a, b) == <<a[2] * b[3] - a[3] * b[2], a[3] * b[1] - a[1] * b[3], a[1] * b[2] - a[2] * b[1]>>
\* orientation of p2 relative to the directed line p0 -> p1: > 0 left, = 0 on, < 0 right
IsLeft(p0, p1, p2) == (p1[1] - p0[1]) * (p2[2] - p0[2]) - (p2[1] - p0[1]) * (p1[2] - p0[2])
Sign(x) == IF x > 0 THEN 1 ELSE IF x < 0 THEN -1 ELSE 0

\* ---- rays: r = <<P1, P2>>, point(t) = P1 + t (P2 - P1) -------------------------------------------------
\* status: "colinear" (parallel or coincident directions), "intersect", "skew"; parameters as pairs <<num, den>>
RayIntersect(r1, r2) ==
  LET d1 == To3(Sub(r1[2], r1[1])) d2 == To3(Sub(r2[2], r2[1]))
      pd == To3(Sub(r2[1], r1[1]))
      dc == Cross3(d1, d2)
      m2 == Dot(dc, dc)
  IN IF m2 = 0 THEN [status |-> "colinear", t1 |-> <<0, 1>>, t2 |-> <<0, 1>>]
     ELSE IF Dot(pd, dc) # 0 THEN [status |-> "skew", t1 |-> <<0, 1>>, t2 |-> <<0, 1>>]
     ELSE [status |-> "intersect", t1 |-> <<Dot(Cross3(pd, d2), dc), m2>>, t2 |-> <<Dot(Cross3(pd, d1), dc), m2>>]
\* the defining equation of an intersection: P1 + t1 d1 = Q1 + t2 d2 (cross-multiplied, integers only)
RayPointsCoincide(r1, r2, res) ==
  LET d1 == Sub(r1[2], r1[1]) d2 == Sub(r2[2], r2[1]) IN
  \A k \in 1..Len(d1) : (r1[1][k] * res.t1[2] + res.t1[1] * d1[k]) * res.t2[2] = (r2[1][k] * res.t2[2] + res.t2[1] * d2[k]) * res.t1[2]

\* ---- polygons (closed: last vertex = first), query points in doubled coordinates ---------------------------
\* all coordinates of `q2` are 2 x the real coordinates (so half-integer points are integers); vertices are doubled on the fly
Dbl(p) == <<2 * p[1], 2 * p[2]>>
OnSegment(q, a, b) == IsLeft(a, b, q) = 0 /\ Dot(Sub(q, a), Sub(q, b)) <= 0
OnBoundary(q2, poly) == \E i \in 1..(Len(poly) - 1) : OnSegment(q2, Dbl(poly[i]), Dbl(poly[i + 1]))
\* DEFINITION: cast the ray q + s (K, 1), s > 0 with K so large that it meets no lattice vertex; the point is inside
\* iff the ray crosses an odd number of edges properly
K == 1000
RaySide(q, p) == (p[1] - q[1]) * 1 - (p[2] - q[2]) * K        \* sign: side of p relative to the ray's line
CrossesEdge(q, a, b) ==
  LET sa == RaySide(q, a) sb == RaySide(q, b) IN
  /\ Sign(sa) * Sign(sb) < 0
  \* forward direction: the intersection point lies ahead of q; it divides a-b in ratio |sa| : |sb|
  /\ LET num == (a[1] - q[1]) * (IF sb < 0 THEN -sb ELSE sb) + (b[1] - q[1]) * (IF sa < 0 THEN -sa ELSE sa)
         numy == (a[2] - q[2]) * (IF sb < 0 THEN -sb ELSE sb) + (b[2] - q[2]) * (IF sa < 0 THEN -sa ELSE sa)
     IN num * K + numy > 0
InsideDef(q2, poly) == Cardinality({i \in 1..(Len(poly) - 1) : CrossesEdge(q2, Dbl(poly[i]), Dbl(poly[i + 1]))}) % 2 = 1
\* simple polygon: non-adjacent edges are disjoint, adjacent ones share only the vertex, no zero-length edge
SegsIntersect(a, b, c, d) ==
  LET o1 == Sign(IsLeft(a, b, c)) o2 == Sign(IsLeft(a, b, d)) o3 == Sign(IsLeft(c, d, a)) o4 == Sign(IsLeft(c, d, b)) IN
  \/ (o1 * o2 < 0 /\ o3 * o4 < 0)
  \/ OnSegment(c, a, b) \/ OnSegment(d, a, b) \/ OnSegment(a, c, d) \/ OnSegment(b, c, d)
IsSimple(poly) ==
  LET n == Len(poly) - 1 IN
  /\ \A i \in 1..n : poly[i] # poly[i + 1]
  /\ \A i, j \in 1..n : i < j =>
       IF j = i + 1 \/ (i = 1 /\ j = n)
       THEN LET sh == IF j = i + 1 THEN poly[j] ELSE poly[1]
                o1 == IF j = i + 1 THEN poly[i] ELSE poly[2]
                o2 == IF j = i + 1 THEN poly[j + 1] ELSE poly[n]
            IN ~(IsLeft(sh, o1, o2) = 0 /\ Dot(Sub(o1, sh), Sub(o2, sh)) > 0)      \* no fold-back
       ELSE ~SegsIntersect(poly[i], poly[i + 1], poly[j], poly[j + 1])
\* twice the signed area
Area2(poly) == LET n == Len(poly) - 1
                   RECURSIVE S(_)
                   S(i) == IF i > n THEN 0 ELSE poly[i][1] * poly[i + 1][2] - poly[i + 1][1] * poly[i][2] + S(i + 1)
               IN S(1)

\* ---- convex hull (monotone chain transcription; the theorems below are the definition) -----------------------
LexLess(a, b) == a[1] < b[1] \/ (a[1] = b[1] /\ a[2] < b[2])
RECURSIVE SortPts(_)
SortPts(S) == IF S = {} THEN <<>> ELSE LET m == CHOOSE x \in S : \A y \in S : x = y \/ LexLess(x, y) IN <<m>> \o SortPts(S \ {m})
RECURSIVE KeepLeft(_, _)
KeepLeft(h, r) == IF Len(h) > 1 /\ IsLeft(h[Len(h) - 1], h[Len(h)], r) <= 0 THEN KeepLeft(SubSeq(h, 1, Len(h) - 1), r)
                  ELSE IF Len(h) = 0 \/ h[Len(h)] # r THEN Append(h, r) ELSE h
RECURSIVE Chain(_, _, _)
Chain(pts, i, h) == IF i > Len(pts) THEN h ELSE Chain(pts, i + 1, KeepLeft(h, pts[i]))
Rev(s) == [i \in 1..Len(s) |-> s[Len(s) + 1 - i]]
Hull(S) == LET p == SortPts(S) l == Chain(p, 1, <<>>) u == Chain(Rev(p), 1, <<>>) IN
           l \o (IF Len(u) > 2 THEN SubSeq(u, 2, Len(u) - 1) ELSE <<>>)
HullOK(S, H) ==
  LET n == Len(H) nxt(i) == IF i = n THEN 1 ELSE i + 1 IN
  /\ \A i \in 1..n : H[i] \in S
  /\ Cardinality({H[i] : i \in 1..n}) = n
  /\ n >= 3 => \A i \in 1..n : IsLeft(H[i], H[nxt(i)], H[nxt(nxt(i))]) > 0                 \* strictly convex, counter-clockwise
  /\ n >= 3 => \A p \in S : \A i \in 1..n : IsLeft(H[i], H[nxt(i)], p) >= 0                  \* contains every point
  /\ \A i \in 1..n : H[1] = H[i] \/ LexLess(H[1], H[i])                                       \* starts at the lexicographic minimum
=============================================================================
