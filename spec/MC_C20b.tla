------------------------------ MODULE MC_C20b ------------------------------
(* C20, spatial queries on shapes: voxelisation and active control points.   *)
EXTENDS Ops, Lattice, Extras, TLC, Json
CONSTANTS MaxVox, Seed
VARIABLES sh, out
vars == <<sh, out>>
B1 == <<1, MkClamped(1, <<Half>>, <<0>>)>>
L3 == <<1, MkClamped(1, <<Half>>, <<1>>)>>
B2 == <<2, MkClamped(2, <<Half>>, <<0>>)>>
K2 == <<2, MkClamped(2, <<Half>>, <<1>>)>>
SurfSet == {s \in Surfaces({B1, L3, K2}, {B2, L3, K2}, {3}, BOOLEAN, Seed) : s.size[1] # s.size[2]}
VolSet == {s \in Volumes({B1}, {L3, B2}, {B1, K2}, {FALSE}, Seed) : DiffSizes(s)}
CurveSet == Curves({K2, <<3, MkClamped(3, <<Half>>, <<2>>)>>}, {2}, BOOLEAN, Seed)
\* a "valley": the control polygon overshoots the surface (control heights 2, 0, 2; the surface only comes down to height 1, at u = 1/2),
\* so the sampled points do not reach the bounding box of the control net and their lowest height lies ON a grid plane for 3 voxels in z
Valley == [deg |-> <<2, 1>>, kv |-> <<B2[2], B1[2]>>, size |-> <<3, 2>>, rat |-> FALSE,
           P |-> [i \in 1..6 |-> LET iu == (i - 1) \div 2  iv == (i - 1) % 2 IN <<RI(iu), RI(iv), IF iu = 1 THEN Zero ELSE RI(2)>>]]
Init == sh \in SurfSet \cup VolSet \cup CurveSet \cup {Valley} /\ out = [op |-> "init"]

\* _voxelize.generate_voxel_grid: per axis the values lo + i step, i = 0..sz-1 (a single value when the extent is zero);
\* voxel = closed box [corner, corner + step]
AxisVals(lo, hi, sz) == IF lo = hi THEN <<lo>> ELSE TLCEval([i \in 1..sz |-> RAdd(lo, RDiv(RMul(RI(i - 1), RSub(hi, lo)), RI(sz - 1)))])
VoxGrid(bb, gs) ==
  LET step == TLCEval([k \in 1..3 |-> RDiv(RSub(bb[2][k], bb[1][k]), RI(gs[k] - 1))])
      ax == TLCEval([k \in 1..3 |-> AxisVals(bb[1][k], bb[2][k], gs[k])])
  IN TLCEval([x \in 1..(Len(ax[1]) * Len(ax[2]) * Len(ax[3])) |->
        LET z == x - 1 iw == z % Len(ax[3]) iv == (z \div Len(ax[3])) % Len(ax[2]) iu == z \div (Len(ax[3]) * Len(ax[2]))
            lo == <<ax[1][iu + 1], ax[2][iv + 1], ax[3][iw + 1]>>
        IN <<lo, VAdd(lo, step)>>])
\* use_cubes = TRUE: every axis uses the smallest of the three steps; the corner values of an axis are those of
\* linalg.frange(lo, hi, step) (Extras!FRange: it may end up to half a step beyond hi)
RMin3(a, b, c) == RMin(a, RMin(b, c))
VoxGridCubes(bb, gs) ==
  LET st == RMin3(RDiv(RSub(bb[2][1], bb[1][1]), RI(gs[1] - 1)), RDiv(RSub(bb[2][2], bb[1][2]), RI(gs[2] - 1)), RDiv(RSub(bb[2][3], bb[1][3]), RI(gs[3] - 1)))
      ax == TLCEval([k \in 1..3 |-> FRange(bb[1][k], bb[2][k], st)])
  IN TLCEval([x \in 1..(Len(ax[1]) * Len(ax[2]) * Len(ax[3])) |->
        LET z == x - 1 iw == z % Len(ax[3]) iv == (z \div Len(ax[3])) % Len(ax[2]) iu == z \div (Len(ax[3]) * Len(ax[2]))
            lo == <<ax[1][iu + 1], ax[2][iv + 1], ax[3][iw + 1]>>
        IN <<lo, VAdd(lo, <<st, st, st>>)>>])
InBox(p, v) == \A k \in 1..3 : RLe(v[1][k], p[k]) /\ RLe(p[k], v[2][k])
\* (bound variables of a quantifier over a singleton set hold evaluated values: each is computed once)
Voxelize(gs, ns) ==
  /\ out.op = "init" /\ PDim(sh) >= 2
  /\ \E bb \in {BBox(sh)} : \E pts \in {SampleGrid(sh, ns)} : \E vox \in {VoxGrid(bb, gs)} :
       out' = [op |-> "voxelize", gs |-> gs, ns |-> ns, grid |-> vox, bbox |-> bb,
               filled |-> [x \in 1..Len(vox) |-> IF \E i \in 1..Len(pts) : InBox(pts[i], vox[x]) THEN 1 ELSE 0]]
  /\ UNCHANGED sh
VoxelizeCubes(gs, ns) ==
  /\ out.op = "init" /\ PDim(sh) = 2
  /\ \E bb \in {BBox(sh)} : \E pts \in {SampleGrid(sh, ns)} :
       /\ \A k \in 1..3 : bb[1][k] # bb[2][k]                 \* (a flat axis gives a zero step: frange does not terminate in the library)
       /\ \E vox \in {VoxGridCubes(bb, gs)} :
            out' = [op |-> "voxelize", gs |-> gs, ns |-> ns, cubes |-> TRUE, grid |-> vox, bbox |-> bb,
                    filled |-> [x \in 1..Len(vox) |-> IF \E i \in 1..Len(pts) : InBox(pts[i], vox[x]) THEN 1 ELSE 0],
                    allin |-> \A i \in 1..Len(pts) : \E x \in 1..Len(vox) : InBox(pts[i], vox[x])]
  /\ UNCHANGED sh
FindCtrl(prm) == /\ out.op = "init" /\ PDim(sh) <= 2
                 /\ out' = [op |-> "find_ctrlpts", prm |-> prm, idx |-> SortedInts(ActiveIdx(sh, prm))] /\ UNCHANGED sh
NS == IF PDim(sh) = 2 THEN {<<3, 4>>, <<5, 2>>} ELSE {<<2, 3, 2>>}
GS == {<<2, 2, 2>>, <<2, 3, MaxVox>>, <<MaxVox, 2, 3>>} \cup (IF sh = Valley THEN {<<2, 2, 3>>, <<3, 2, 3>>} ELSE {})
Next == (\E gs \in GS : \E ns \in NS : Voxelize(gs, ns)) \/ (\E gs \in {<<2, 3, 4>>, <<3, 2, 2>>} : VoxelizeCubes(gs, <<3, 4>>)) \/ (\E prm \in ShapeParams(sh, 1) : FindCtrl(prm))
Spec == Init /\ [][Next]_vars
\* the grid covers the bounding box: every sample lies in some voxel, so at least one voxel is filled; corners are grid corners
\* a voxel may be filled only through its boundary: the valley's lowest samples lie on the upper face of the bottom layer
T_Touching == out.op = "voxelize" /\ sh = Valley /\ out.gs[3] = 3 => \E x \in 1..Len(out.grid) : out.filled[x] = 1 /\ out.grid[x][2][3] = One
\* cubes still cover every sampled point (no gaps between neighbouring cubes)
T_CubesCover == out.op = "voxelize" /\ "cubes" \in DOMAIN out => out.allin /\ \A x \in 1..Len(out.grid) : \A k \in 1..3 :
                   RSub(out.grid[x][2][k], out.grid[x][1][k]) = RSub(out.grid[x][2][1], out.grid[x][1][1])
T_Covers == out.op = "voxelize" =>
   /\ \E x \in 1..Len(out.filled) : out.filled[x] = 1
   /\ out.grid[1][1] = out.bbox[1]
   /\ \A k \in 1..3 : RGe(out.grid[Len(out.grid)][2][k], out.bbox[2][k])
EmitC == out.op # "init" => PrintT("CASE " \o ToJson([sh |-> sh, out |-> out]))
=============================================================================
