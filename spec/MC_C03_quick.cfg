SPECIFICATION Spec
CONSTANTS
  MaxP = 3
  MaxHiP = 5
  MaxInterior = 3
  KVals <- KValsQ
  Eps <- Eps64
  MaxGenExtra = 16
  SpanInterior = 6
INVARIANT T_SpanUnique
INVARIANT T_SpanAlgos
INVARIANT T_BasisFuns
INVARIANT T_NonNeg
INVARIANT T_Unity
INVARIANT T_Local
INVARIANT T_CoxDeBoor
INVARIANT T_AllDegrees
INVARIANT T_DerZero
INVARIANT T_Generate
INVARIANT T_Normalize
INVARIANT T_Check
INVARIANT Emit
CHECK_DEADLOCK FALSE
