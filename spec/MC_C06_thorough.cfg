SPECIFICATION Spec
CONSTANTS
  Shapes0 <- MCShapes
  Acts = {"insert", "refine", "remove"}
  MaxDepth = 3
  CurveP = {1,2,3}
  CurveInt = 2
  SurfMode = 2
  VolMode = 1
  MaxRemDepth = 2
  Seed = 2
INVARIANT T_WellFormed
INVARIANT InvertsInsert
INVARIANT InsertedIsRemovable
INVARIANT Emit
PROPERTY P_RemoveExact
PROPERTY P_BookTest
PROPERTY P_RemoveMulti
CHECK_DEADLOCK FALSE
