------------------------------ MODULE MC_C12 ------------------------------
(* C12: no stale derived state.  All interleavings of public mutators and    *)
(* readers up to the depth bound.  The specification says what `def` is      *)
(* after each history; the property is that every derived view equals what   *)
(* a freshly built object with that definition reports (checked by the       *)
(* replay against a twin built from the SPEC's definition).                  *)
EXTENDS Geomdl, Lattice
CONSTANTS DepthCurve, DepthSurf, DepthVol, Seed

K3 == <<3, MkClamped(3, <<Half>>, <<1>>)>>
K2 == <<2, MkClamped(2, <<Half>>, <<1>>)>>
B1 == <<1, MkClamped(1, <<Half>>, <<0>>)>>
B2 == <<2, MkClamped(2, <<Half>>, <<0>>)>>
L3 == <<1, MkClamped(1, <<Half>>, <<1>>)>>
MCShapes == Curves({K3}, {2}, {TRUE}, Seed) \cup Curves({K2}, {3}, {FALSE}, Seed)
            \* (different sizes and degrees per direction: 3 x 4 control points, transposed by the histories; 4 x 2 x 3 for the volume)
            \cup Surfaces({L3}, {K2}, {3}, BOOLEAN, Seed)
            \cup Volumes({K2}, {B1}, {L3}, {TRUE}, Seed)
DepthOf(s) == IF PDim(s) = 1 THEN DepthCurve ELSE IF PDim(s) = 2 THEN DepthSurf ELSE DepthVol
ViewsOf(s) == {"ctrlpts", "evalpts", "bbox"} \cup (IF s.rat THEN {"weights"} ELSE {}) \cup (IF PDim(s) = 2 THEN {"ctrlpts2d", "tess"} ELSE {})
Q == R(1, 4)
InsArg(s) == \* one insertion per direction; for surfaces also u admissible together with v over the limit (u stays applied)
  {<<[e \in 1..PDim(s) |-> IF e = d THEN Q ELSE None], [e \in 1..PDim(s) |-> IF e = d THEN 1 ELSE 0]>> : d \in 1..PDim(s)}
  \cup (IF PDim(s) = 2 THEN {<<<<Q, Q>>, <<1, s.deg[2] + 1>>>>} ELSE {})
Vec(s) == LET d == CDim(s) - (IF s.rat THEN 1 ELSE 0) IN [k \in 1..d |-> RI(k)]
\* at most two refining calls per history (their rational results grow; TLC integers are 32-bit)
NumRefining == Cardinality({i \in 1..Len(hist) : hist[i].a \in {"insert", "refine"}})
Next == /\ Len(hist) < DepthOf(sh0)
        /\ \/ \E v \in ViewsOf(obj) : ARead(v)
           \/ NumRefining < 2 /\ \E a \in InsArg(obj) : AInsert(a[1], a[2])
           \/ \E d \in 1..PDim(obj) : Mult(Q, obj.kv[d]) > 0 /\ ARemove(d, Q, 1)
           \/ NumRefining < 2 /\ ARefine([e \in 1..PDim(obj) |-> IF e = 1 THEN 1 ELSE 0])
           \/ AReverse \/ ATranspose \/ AFlip
           \/ ASetCtrlpts(1) \/ ASetWeights(1) \/ AScaleWeights(RI(2))
           \/ ATranslate(Vec(obj))
           \/ ASampleSize(3)
           \/ AScale(RI(-1))
           \/ AEditCtrlpts(2, 1) \/ AEditCtrlptsW(2, 1)
           \/ \E d \in 1..3 : ASampleSizeDir(d, 3)
Spec == Init /\ [][Next]_vars
T_WellFormed == WellFormed(obj)
\* reads never change the definition
P_ReadPure == [][hist'[Len(hist')].a \in {"read", "sample_size", "sample_size_dir"} => obj' = obj]_vars
=============================================================================
