------------------------------ MODULE MC_C05 ------------------------------
(* C05: knot refinement never changes the shape.                            *)
EXTENDS Geomdl, Lattice

CONSTANTS CurveP, CurveInt, SurfMode, VolMode, MaxDens, DepthCurve, Seed

CurveSet == Curves(ClampedDirs(CurveP, KQ, CurveInt), {2}, BOOLEAN, Seed)
SD1 == ClampedDirs({1, 2}, <<Half>>, 1)
SD2 == ClampedDirs({2, 3}, <<R(1,4), R(3,4)>>, 2)
SurfSet == IF SurfMode = 0 THEN {} ELSE
  {s \in Surfaces(SD1, IF SurfMode = 1 THEN SD1 ELSE SD1 \cup SD2, {3}, BOOLEAN, Seed) : DiffSizes(s) \/ SurfMode > 1}
VD1 == ClampedDirs({1}, <<Half>>, 1)
VD2 == ClampedDirs({1, 2}, <<Half>>, 1)
VolSet == IF VolMode = 0 THEN {} ELSE
  {s \in Volumes(VD2, VD2, IF VolMode = 1 THEN VD1 ELSE VD2, BOOLEAN, Seed) :
      DiffSizes(s) /\ (VolMode > 1 \/ (s.deg[1] = 1 /\ s.deg[2] = 2) \/ (s.deg[1] = 2 /\ s.deg[2] = 1 /\ ~s.rat))}
\* non-normalised knot vectors: ranges [0,2], [0,4] (refined knots exactly 1.0 apart), and different ranges per direction
RawCurves == Curves({<<p, AffineKV(MkClamped(p, <<Half>>, <<k>>), RI(a), RI(0))>> : p \in {2, 3}, k \in {0, 1}, a \in {2, 4}}, {2}, BOOLEAN, Seed)
RawSurf == Surfaces({<<2, AffineKV(MkClamped(2, <<Half>>, <<0>>), RI(4), RI(0))>>}, {<<1, AffineKV(MkClamped(1, <<Half>>, <<1>>), RI(2), RI(-1))>>}, {3}, {TRUE}, Seed)
RawSet == IF SurfMode = 0 THEN {} ELSE RawCurves \cup RawSurf
MCShapes == CurveSet \cup SurfSet \cup VolSet \cup RawSet
DepthOf(s) == IF PDim(s) = 1 /\ Last(s.kv[1]) = One THEN DepthCurve ELSE 1     \* raw knot ranges: one call (32-bit integers)
\* density 3 (8 pieces per interval) on curves with at most one interior knot
DensSet(s) == LET m == IF PDim(s) = 1 THEN (IF s.deg[1] <= 2 /\ s.size[1] <= s.deg[1] + 2 THEN IMax(MaxDens, 3) ELSE MaxDens) ELSE IF PDim(s) = 2 THEN IMin(MaxDens, 2) ELSE 1 IN
  IF PDim(s) = 1 THEN {<<a>> : a \in 1..m}
  ELSE IF PDim(s) = 2 THEN {<<a, b>> \in (0..m) \X (0..m) : a + b > 0}
  ELSE {<<a, b, c>> \in (0..m) \X (0..m) \X (0..m) : a + b + c > 0}

HelperLists == {<<Zero, One>>, <<R(1,4), R(3,4)>>, <<Zero, Half, One>>}
HelperAdds == {<<>>, <<R(1,3)>>}
Next == /\ Len(hist) < DepthOf(sh0)
        /\ (hist # <<>> => hist[1].a = "refine")      \* nothing follows a helper call (thirds): keeps denominators small
        /\ \/ \E dens \in (IF hist = <<>> THEN DensSet(obj) ELSE {<<1>>}) : ARefine(dens)
           \/ hist = <<>> /\ Last(obj.kv[1]) = One /\ \E kl \in HelperLists, add \in HelperAdds, dens \in 1..2 : ARefineHelper(kl, add, dens)
Spec == Init /\ [][Next]_vars

LastStep == hist'[Len(hist')]
P_SameShape == [][SameH(obj, obj')]_vars
\* after density d: every original interior interval bisected d times, every interior knot has multiplicity = degree,
\* unselected directions untouched
P_Structure == [][
  LET st == LastStep IN
  st.a = "refine" => \A d \in 1..PDim(obj) :
    IF st.dens[d] = 0 THEN obj'.kv[d] = obj.kv[d] /\ obj'.size[d] = obj.size[d]
    ELSE LET p == obj.deg[d]
             B == BreakSeq(obj.kv[d])
             B2 == BreakSeq(obj'.kv[d])
             expect == Bisect(B, st.dens[d]) IN
         /\ B2 = expect
         /\ \A i \in 2..(Len(B2) - 1) : Mult(B2[i], obj'.kv[d]) = p
         /\ Clamped(p, obj'.kv[d]) /\ ValidKV(obj'.kv[d])
         /\ obj'.size[d] = Len(obj'.kv[d]) - p - 1]_vars
T_WellFormed == WellFormed(obj)
=============================================================================
