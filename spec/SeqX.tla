-------------------------------- MODULE SeqX --------------------------------
(* Sequence helpers; "At" gives 0-based access so transcriptions of the     *)
(* code keep the code's index arithmetic.                                   *)
EXTENDS Integers, Sequences, FiniteSets, TLC

At(s, i) == s[i + 1]
Upd(s, i, v) == [s EXCEPT ![i + 1] = v]
Slice(s, a, b) == TLCEval([i \in 1..(b - a) |-> s[a + i]])          \* python s[a:b]
Last(s) == s[Len(s)]
RevSeq(s) == TLCEval([i \in 1..Len(s) |-> s[Len(s) + 1 - i]])
RECURSIVE FlattenSeq(_)
FlattenSeq(ss) == IF ss = <<>> THEN <<>> ELSE Head(ss) \o FlattenSeq(Tail(ss))
Count(s, x) == Cardinality({i \in 1..Len(s) : s[i] = x})
RangeOf(s) == {s[i] : i \in 1..Len(s)}
RECURSIVE SumInts(_)
SumInts(s) == IF s = <<>> THEN 0 ELSE Head(s) + SumInts(Tail(s))
RECURSIVE ProdInts(_)
ProdInts(s) == IF s = <<>> THEN 1 ELSE Head(s) * ProdInts(Tail(s))
IMin(a, b) == IF a <= b THEN a ELSE b
IMax(a, b) == IF a >= b THEN a ELSE b
\* sequence enumerating a finite set of integers in increasing order
RECURSIVE SortedInts(_)
SortedInts(S) == IF S = {} THEN <<>> ELSE
   LET m == CHOOSE x \in S : \A y \in S : x <= y IN <<m>> \o SortedInts(S \ {m})
=============================================================================
