------------------------------ MODULE MC_C11 ------------------------------
(* C11: fitted curves and surfaces meet interpolation / least-squares conditions *)
EXTENDS Fitting, TLC, Json
CONSTANTS MaxPts, MaxApproxPts
VARIABLES c, out
vars == <<c, out>>
\* steps with rational lengths (and rational square roots for the centripetal menu)
MenuChord2 == <<<<<<1, 0>>, 1, 1>>, <<<<3, 4>>, 5, 0>>, <<<<0, 2>>, 2, 0>>, <<<<4, -3>>, 5, 0>>, <<<<2, 0>>, 2, 0>>, <<<<0, -1>>, 1, 1>>>>
MenuCentr2 == <<<<<<1, 0>>, 1, 1>>, <<<<0, 4>>, 4, 2>>, <<<<9, 0>>, 9, 3>>, <<<<0, -1>>, 1, 1>>, <<<<4, 0>>, 4, 2>>, <<<<0, 9>>, 9, 3>>>>
MenuChord3 == <<<<<<2, 3, 6>>, 7, 0>>, <<<<1, 2, 2>>, 3, 0>>, <<<<0, 0, 1>>, 1, 1>>, <<<<4, 0, 3>>, 5, 0>>, <<<<2, -1, 2>>, 3, 0>>, <<<<1, 0, 0>>, 1, 1>>>>
Menu(dim, centr) == IF centr THEN MenuCentr2 ELSE IF dim = 2 THEN MenuChord2 ELSE MenuChord3
\* m steps selected by an affine index walk (a, b): distinct consecutive points by construction
\* a = 0 selects closed loops: the walk returns to its starting point (a data point is revisited non-consecutively)
LoopChord == <<<<<<3, 4>>, 5, 0>>, <<<<2, 0>>, 2, 0>>, <<<<0, -2>>, 2, 0>>, <<<<-3, -4>>, 5, 0>>, <<<<-2, 0>>, 2, 0>>, <<<<0, 2>>, 2, 0>>>>
LoopCentr == <<<<<<1, 0>>, 1, 1>>, <<<<0, 4>>, 4, 2>>, <<<<-1, 0>>, 1, 1>>, <<<<0, -4>>, 4, 2>>, <<<<9, 0>>, 9, 3>>, <<<<-9, 0>>, 9, 3>>>>
Steps(dim, centr, m, a, b) ==
  IF a = 0 THEN LET M == IF centr THEN LoopCentr ELSE LoopChord IN [k \in 1..m |-> M[IF ~centr /\ m = 4 /\ k > 2 THEN k + 1 ELSE k]]
  ELSE LET M == Menu(dim, centr) IN [k \in 1..m |-> M[((a * k + b) % Len(M)) + 1]]
DataSets == {[dim |-> d, centr |-> ce, m |-> m, a |-> a, b |-> b] :
               d \in {2, 3}, ce \in BOOLEAN, m \in 2..(MaxApproxPts - 1), a \in {1, 5}, b \in {0, 2}}
            \cup {[dim |-> 2, centr |-> ce, m |-> m, a |-> 0, b |-> 0] : ce \in BOOLEAN, m \in {4, 6}}
Init == c \in {ds \in DataSets : ds.centr => ds.dim = 2} /\ out = [op |-> "init"]
Pts == CumPts([k \in 1..c.dim |-> 0], Steps(c.dim, c.centr, c.m, c.a, c.b))
UK == ParamsOf(Steps(c.dim, c.centr, c.m, c.a, c.b), c.centr)
NP == c.m + 1           \* number of data points
Interp(p) == /\ out.op = "init" /\ p <= NP - 1 /\ NP <= MaxPts
   /\ \E uk \in {UK} : \E U \in {AvgKnots(p, NP, uk)} :
        out' = [op |-> "interp_curve", p |-> p, pts |-> Pts, uk |-> uk, kv |-> U, N |-> Colloc(p, U, uk),
                sw |-> SchoenbergWhitney(p, U, uk)]
   /\ UNCHANGED c
Approx(p, n) == /\ out.op = "init" /\ n >= p + 2 /\ n <= NP - 1
   /\ \E uk \in {UK} : \E U \in {ApproxKnots(p, NP, n, uk)} :
        out' = [op |-> "approx_curve", p |-> p, n |-> n, pts |-> Pts, uk |-> uk, kv |-> U, N |-> Colloc(p, U, uk),
                populated |-> SpansPopulated(p, U, uk), valid |-> ValidKV(U)]
   /\ UNCHANGED c
\* surfaces: tensor grids (x from the u-walk, (y, z) from a Pythagorean v-walk); parameters per direction as for curves
SurfV == <<<<<<3, 4>>, 5, 0>>, <<<<0, 2>>, 2, 0>>, <<<<4, 3>>, 5, 0>>, <<<<1, 0>>, 1, 1>>>>
SurfVCentr == <<<<<<1, 0>>, 1, 1>>, <<<<0, 4>>, 4, 2>>, <<<<9, 0>>, 9, 3>>, <<<<0, 1>>, 1, 1>>>>
InterpSurf(pu, pv, mv) == /\ out.op = "init" /\ c.dim = 2 /\ c.a # 0 /\ NP <= 5 /\ pu <= NP - 1 /\ pv <= mv
   /\ LET su == Steps(2, c.centr, c.m, c.a, c.b)
          xs == [k \in 1..NP |-> SumInts([i \in 1..(k - 1) |-> su[i][2]])]                  \* x = cumulative u-lengths
          sv == [k \in 1..mv |-> (IF c.centr THEN SurfVCentr ELSE SurfV)[((k + c.b) % 4) + 1]]
          yz == CumPts(<<0, 0>>, sv)
          uk == ParamsOf(su, c.centr) vl == ParamsOf(sv, c.centr)
          Uu == AvgKnots(pu, NP, uk) Uv == AvgKnots(pv, mv + 1, vl)
      IN out' = [op |-> "interp_surf", pu |-> pu, pv |-> pv, su |-> NP, sv |-> mv + 1,
                 pts |-> [x \in 1..(NP * (mv + 1)) |-> LET iu == (x - 1) \div (mv + 1) iv == (x - 1) % (mv + 1) IN <<xs[iu + 1], yz[iv + 1][1], yz[iv + 1][2]>>],
                 uk |-> uk, vl |-> vl, kvu |-> Uu, kvv |-> Uv, Nu |-> Colloc(pu, Uu, uk), Nv |-> Colloc(pv, Uv, vl)]
   /\ UNCHANGED c
\* data with a cluster of nearly coincident (distinct) consecutive points: steps of length 200 and 1.  The collocation matrix is
\* very badly scaled (its entries exceed TLC's integers, so the specification states parameters, knots and the
\* Schoenberg-Whitney conditions; the replay forms the basis values from them in exact arithmetic)
ClusterSteps == LET B == <<<<<<200, 0>>, 200, 0>>, <<<<0, 200>>, 200, 0>>>>   S == <<<<<<1, 0>>, 1, 1>>, <<<<0, 1>>, 1, 1>>>> IN
   <<B[1], B[2], B[1], S[1], S[2], S[1], S[2], B[1], B[2], B[1]>>
InterpCluster(p) == /\ out.op = "init" /\ c = [dim |-> 2, centr |-> FALSE, m |-> 4, a |-> 0, b |-> 0]     \* one representative initial state
   /\ \E uk \in {ParamsOf(ClusterSteps, FALSE)} : \E U \in {AvgKnots(p, Len(ClusterSteps) + 1, uk)} :
        out' = [op |-> "interp_curve", p |-> p, pts |-> CumPts(<<0, 0>>, ClusterSteps), uk |-> uk, kv |-> U, N |-> <<>>,
                sw |-> SWKnots(p, U, uk)]
   /\ UNCHANGED c
Next == \/ \E p \in 1..4 : Interp(p)
        \/ \E p \in 3..5 : InterpCluster(p)
        \/ \E p \in 1..3 : \E n \in 3..(MaxApproxPts - 1) : Approx(p, n)
        \/ \E pu \in 1..3 : \E pv \in 1..2 : \E mv \in 2..3 : InterpSurf(pu, pv, mv)
        \/ InterpSurf(1, 1, 4)            \* 5 columns of data: room for a least-squares fit with fewer control points than the default
Spec == Init /\ [][Next]_vars
\* averaged knots satisfy the Schoenberg-Whitney conditions: the collocation matrix is non-singular
T_SW == out.op = "interp_curve" => out.sw /\ (out.N # <<>> => SWKnots(out.p, out.kv, out.uk)) /\ ValidKV(out.kv) /\ Len(out.kv) = Len(out.pts) + out.p + 1
T_Approx == out.op = "approx_curve" => out.valid /\ out.populated /\ Len(out.kv) = out.n + out.p + 1
\* rows of every collocation matrix are a partition of unity
T_Rows == out.op \in {"interp_curve", "approx_curve"} /\ out.N # <<>> => \A k \in 1..Len(out.N) : RSum(out.N[k]) = One
EmitC == out.op # "init" => PrintT("CASE " \o ToJson([c |-> c, out |-> out]))
=============================================================================
