------------------------------- MODULE MC_X01 -------------------------------
(* Suite X01 (beyond the listed properties): cases for Extras.tla.           *)
EXTENDS Extras, FiniteSets, Json
CONSTANTS MaxU, MaxV
VARIABLES c, out
vars == <<c, out>>
Kinds == {"zigzag", "quad", "quadtree", "vectors", "frange", "parbox", "ccw", "bbfaces", "grid", "adddim"}
Init == c \in [kind : Kinds, su : 2..MaxU, sv : 2..MaxV] /\ out = [op |-> "init"]
\* a generic integer point per index (no symmetry)
Pt(i) == <<RI(i), RI(((7 * i + i * i * i) % 13) - 6), RI(((5 * i) % 7) - 3)>>
Pts(n) == [i \in 1..n |-> Pt(i)]
Lattice2 == {<<RI(a), RI(b)>> : a \in -1..2, b \in -1..2}
One1 == c.su = 2 /\ c.sv = 2     \* cases that do not depend on the sizes run once
Step ==
  /\ out.op = "init"
  /\ \/ c.kind = "zigzag" /\ out' = [op |-> "zigzag", pts |-> Pts(c.su * c.sv), cols |-> c.sv, res |-> ZigZag(Pts(c.su * c.sv), c.sv)]
     \/ c.kind = "quad" /\ out' = [op |-> "quad", pts |-> Pts(c.su * c.sv), res |-> MakeQuad(Pts(c.su * c.sv), c.su, c.sv)]
     \/ c.kind = "quadtree" /\ \E ex \in BOOLEAN : out' = [op |-> "quadtree", pts |-> Pts(c.su * c.sv), extrapolate |-> ex, res |-> QuadTree(Pts(c.su * c.sv), c.su, c.sv, ex)]
     \/ c.kind = "vectors" /\ One1 /\ \E n \in 1..4 : \E k \in {R(-3, 2), RI(2)} :
           out' = [op |-> "vectors", vs |-> Pts(n), k |-> k, mean |-> VecMean(Pts(n)), mid |-> PointMid(Pt(n), Pt(n + 1)),
                   sum |-> VecSum(Pt(n), Pt(n + 2), k), gen |-> VecGenerate(Pt(n), Pt(n + 1)), scal |-> MatScalar(<<Pt(n), Pt(n + 1)>>, k)]
     \/ c.kind = "frange" /\ One1 /\ \E a \in {Zero, R(-1, 2)} : \E b \in {One, R(7, 4), RI(3)} : \E st \in {R(1, 4), R(1, 2), R(3, 4), RI(5)} :
           out' = [op |-> "frange", start |-> a, stop |-> b, step |-> st, res |-> FRange(a, b, st)]
     \/ c.kind = "parbox" /\ One1 /\ \E last \in BOOLEAN : \E d \in {<<<<Zero, One>>, <<Zero, One>>>>, <<<<RI(-1), RI(2)>>, <<R(1, 2), RI(3)>>>>} :
           out' = [op |-> "parbox", dom |-> d, last |-> last, res |-> ParBox(d, last)]
     \/ c.kind = "ccw" /\ One1 /\ \E p1 \in {<<Zero, Zero>>, <<RI(1), RI(-1)>>} : \E p2 \in Lattice2 \ {p1} : \E p3 \in Lattice2 \ {p1, p2} :
           out' = [op |-> "ccw", p |-> <<p1, p2, p3>>, sense |-> DetectCCW(p1, p2, p3), online |-> OnLine(p1, p2, p3)]
     \/ c.kind = "bbfaces" /\ One1 /\ \E v \in {<<Pt(1), VAdd(Pt(1), <<RI(1), RI(2), RI(3)>>)>>, <<Pt(4), VAdd(Pt(4), <<Half, Half, RI(2)>>)>>} :
           out' = [op |-> "bbfaces", v |-> v, faces |-> BBFaces(v)]
     \/ c.kind = "grid" /\ \E sx \in {RI(2), R(7, 2)} : out' = [op |-> "grid", sx |-> sx, sy |-> RI(3), nu |-> c.su, nv |-> c.sv, z |-> R(1, 2),
                                                               res |-> GridPts(sx, RI(3), c.su, c.sv, R(1, 2))]
     \/ c.kind = "adddim" /\ One1 /\ \E off \in {Zero, R(5, 2)} : out' = [op |-> "adddim", off |-> off, P |-> Pts(4), res |-> AddDimPts(Pts(4), off)]
  /\ UNCHANGED c
Spec == Init /\ [][Step]_vars
\* ---- theorems on the definitions -----------------------------------------------------------
RangeS(s) == {s[i] : i \in 1..Len(s)}
\* the zig-zag is a re-ordering, and consecutive points are neighbours in the (row, column) grid: one connected polyline
T_ZigZag == out.op = "zigzag" =>
   /\ Len(out.res) = Len(out.pts) /\ RangeS(out.res) = RangeS(out.pts)
   /\ LET pos(p) == CHOOSE i \in 1..Len(out.pts) : out.pts[i] = p IN
      \A i \in 1..(Len(out.res) - 1) :
         LET a == pos(out.res[i]) - 1  b == pos(out.res[i + 1]) - 1 IN
         Abs((a \div out.cols) - (b \div out.cols)) + Abs((a % out.cols) - (b % out.cols)) = 1
\* the quad ordering visits every point exactly twice (once per family of grid lines)
T_Quad == out.op = "quad" => Len(out.res) = 2 * Len(out.pts) /\ \A p \in RangeS(out.pts) : Cardinality({i \in 1..Len(out.res) : out.res[i] = p}) = 2
\* with extrapolation every node has four neighbours and the node is the mid point of opposite neighbours on extrapolated sides
T_QuadTree == out.op = "quadtree" /\ out.extrapolate => \A x \in 1..Len(out.res) : Len(out.res[x]) = 5
T_Mean == out.op = "vectors" => VScale(RI(Len(out.vs)), out.mean) = [k \in 1..3 |-> RSum([i \in 1..Len(out.vs) |-> out.vs[i][k]])]
\* frange starts at start, is strictly increasing with all steps but the last equal to `step`, and ends at stop or - when a
\* multiple of the step lands within half a step beyond it - up to half a step AFTER stop (the code's loop test is x + step/2 < stop)
T_FRange == out.op = "frange" =>
   /\ out.res[1] = out.start
   /\ LET last == out.res[Len(out.res)] IN RLe(out.stop, last) /\ RLt(last, RAdd(out.stop, RDiv(out.step, RI(2))))
   /\ \A i \in 1..(Len(out.res) - 1) : RLt(out.res[i], out.res[i + 1])
   /\ \A i \in 1..(Len(out.res) - 2) : RSub(out.res[i + 1], out.res[i]) = out.step
T_Faces == out.op = "bbfaces" => (\A f \in RangeS(out.faces) : FacePlanar(f)) /\ Cardinality(UNION {RangeS(f) : f \in RangeS(out.faces)}) = 8
T_CCW == out.op = "ccw" => (out.sense = 0) = out.online /\ DetectCCW(out.p[3], out.p[2], out.p[1]) = -out.sense
EmitC == out.op # "init" => PrintT("CASE " \o ToJson([c |-> c, out |-> out]))
=============================================================================
