------------------------------ MODULE MC_C08 ------------------------------
(* C08: degree elevation preserves a Bezier shape and reduction inverts it. *)
EXTENDS Degree, Lattice, TLC, Json
CONSTANTS MaxP, MaxNum, CurveP, Seed
VARIABLES c, out
vars == <<c, out>>

Polys == {[kind |-> "poly", P |-> GenNet(p + 1, dim, rt, Seed + p)] : p \in 1..MaxP, dim \in {2, 3}, rt \in BOOLEAN}
CurveCases == {[kind |-> "curve", sh |-> s] : s \in Curves(ClampedDirs(CurveP, KQ, 2), {2}, BOOLEAN, Seed)}
Init == c \in Polys \cup CurveCases /\ out = [op |-> "init"]

AElevate(num) == /\ out.op = "init" /\ c.kind = "poly"
                 /\ out' = [op |-> "elevate", num |-> num, Q |-> Elevate(c.P, num)] /\ UNCHANGED c
\* the polygon to be reduced is an exact elevation of c.P
AReduce == /\ out.op = "init" /\ c.kind = "poly"
           /\ LET Q == Elevate(c.P, 1) IN out' = [op |-> "reduce", Q |-> Q, P |-> Reduce(Q)] /\ UNCHANGED c
\* rejected inputs: non-Bezier polygon for the stated degree, non-positive count
AReject(what) == /\ out.op = "init" /\ c.kind = "poly" /\ Len(c.P) >= (IF what \in {"reduce_nonbezier", "elevate_toofew"} THEN 2 ELSE 3)
                 /\ out' = [op |-> "reject", what |-> what] /\ UNCHANGED c
AElevateCurve(num) == /\ out.op = "init" /\ c.kind = "curve"
                      /\ out' = [op |-> "elevate_curve", num |-> num, sh |-> ElevateCurve(c.sh, num)] /\ UNCHANGED c
Next == \/ \E num \in 1..MaxNum : AElevate(num)
        \/ AReduce
        \/ \E w \in {"elevate_nonbezier", "elevate_toofew", "elevate_num0", "elevate_negative", "reduce_nonbezier", "reduce_toomany", "reduce_degree1"} : AReject(w)
        \/ \E num \in 1..2 : AElevateCurve(num)
Spec == Init /\ [][Next]_vars

\* same Bezier curve: equality at deg+1 parameters of the higher degree
\* (dyadic parameters j/8 keep the numbers inside TLC's 32-bit integers; checked for degree <= 8 after elevation)
SameBezier(P, Q) == LET n == Len(Q) - 1 IN
  n <= 8 => \A j \in 0..n : PointH(BezShape(P), <<R(j, 8)>>) = PointH(BezShape(Q), <<R(j, 8)>>)
T_Elevate == out.op = "elevate" =>
  /\ Len(out.Q) = Len(c.P) + out.num
  /\ SameBezier(c.P, out.Q)
  /\ out.Q[1] = c.P[1] /\ out.Q[Len(out.Q)] = c.P[Len(c.P)]
T_Reduce == out.op = "reduce" => out.P = c.P /\ SameBezier(out.P, out.Q)
T_ElevateCurve == out.op = "elevate_curve" =>
  /\ out.sh.deg[1] = c.sh.deg[1] + out.num
  /\ WellFormed(out.sh)
  /\ SameH(c.sh, out.sh)
  /\ \A x \in Breaks(c.sh.kv[1]) : Mult(x, out.sh.kv[1]) = Mult(x, c.sh.kv[1]) + out.num
Emit == out.op # "init" => PrintT("CASE " \o ToJson([c |-> c, out |-> out]))
=============================================================================
