------------------------------ MODULE MC_C09 ------------------------------
(* C09: weights, weighted and unweighted control points stay consistent.    *)
(* (a) histories of the three setters, weight scaling and reads on rational  *)
(*     curves / surfaces / volumes;  (b) pure conversions.                   *)
EXTENDS Geomdl, Lattice

CONSTANTS DepthCurve, DepthOther, Seed
B1 == <<1, MkClamped(1, <<Half>>, <<0>>)>>
B2 == <<2, MkClamped(2, <<Half>>, <<0>>)>>
K2 == <<2, MkClamped(2, <<Half>>, <<1>>)>>
MCShapes == Curves({K2}, {2, 3}, {TRUE}, Seed) \cup Surfaces({B1}, {B2}, {3}, {TRUE}, Seed) \cup Surfaces({K2}, {B1}, {3}, {TRUE}, Seed)
            \cup Volumes({B1}, {B2}, {B1}, {TRUE}, Seed) \cup Volumes({B2}, {B1}, {K2}, {TRUE}, Seed)
DepthOf(s) == IF PDim(s) = 1 THEN DepthCurve ELSE DepthOther
Views == {"ctrlpts", "weights", "ctrlptsw"}
Next == /\ Len(hist) < DepthOf(sh0)
        /\ \/ \E k \in 1..2 : ASetCtrlpts(k) \/ ASetWeights(k) \/ ASetCtrlptsW(k)
           \/ AShrinkCtrlpts(1)
           \/ \E c \in {R(1,2), RI(3)} : AScaleWeights(c)
           \/ \E v \in Views : ARead(v)
           \/ \E i \in {2}, k \in 1..2 : AEditCtrlptsW(i, k)
           \/ \E keep \in {"orig", "copy"} : AFork(RI(3), keep)
Spec == Init /\ [][Next]_vars

\* the three views are always related by multiplication with the weight
T_Consistent ==
  \A i \in 1..Len(obj.P) :
     /\ Combine(ViewCtrlpts(obj), ViewWeights(obj))[i] = ViewCtrlptsW(obj)[i]
     /\ RGt(ViewWeights(obj)[i], Zero)
LastStep == hist'[Len(hist')]
\* multiplying all weights by one positive constant moves no point; setting weights keeps the unweighted points;
\* setting the points keeps the weights; reads change nothing
P_Steps == [][
  LET st == LastStep IN
  /\ st.a = "scale_weights" => (WellFormed(obj) => SamePts(obj, obj')) /\ ViewCtrlpts(obj') = ViewCtrlpts(obj)
  /\ st.a = "set_weights" => ViewCtrlpts(obj') = ViewCtrlpts(obj) /\ ViewWeights(obj') = st.W
  /\ st.a = "set_ctrlpts" => ViewWeights(obj') = ViewWeights(obj) /\ ViewCtrlpts(obj') = st.P
  /\ st.a = "set_ctrlptsw" => ViewCtrlptsW(obj') = st.Pw
  /\ st.a = "shrink_ctrlpts" => ViewCtrlpts(obj') = st.P /\ Len(ViewWeights(obj')) = Len(st.P)
  /\ st.a = "edit_ctrlptsw" => ViewCtrlptsW(obj') = [ViewCtrlptsW(obj) EXCEPT ![st.i] = st.pt]
  /\ st.a \in {"read", "fork"} => obj' = obj]_vars
\* views of the final state, emitted with every history
EmitViews == hist # <<>> =>
  PrintT("CASE " \o ToJson([sh0 |-> sh0, hist |-> hist, obj |-> obj,
                            views |-> [ctrlpts |-> ViewCtrlpts(obj), weights |-> ViewWeights(obj), ctrlptsw |-> ViewCtrlptsW(obj)]]))
=============================================================================
