-------------------------------- MODULE Cache --------------------------------
(* An LRU memo of any capacity in front of a pure function: every call returns *)
(* the function value, whatever the capacity and the call history.             *)
(* ByReference = TRUE models the implementation-shaped variant in which the     *)
(* cached value is a mutable object handed out by reference and a caller        *)
(* modifies it in place (the matrix_identity / matrix_pivot defect): there the   *)
(* invariant fails, which is why callers must copy.                              *)
EXTENDS Integers, Sequences
CONSTANTS Keys, Capacity, MaxCalls, ByReference
VARIABLES cache, order, ret, ncalls
vars == <<cache, order, ret, ncalls>>
F(k) == k * k + 1
Init == cache = [k \in {} |-> 0] /\ order = <<>> /\ ret = [key |-> 0, val |-> F(0)] /\ ncalls = 0
Touch(k) == SelectSeq(order, LAMBDA x : x # k) \o <<k>>
Call(k, mutate) ==
  /\ ncalls < MaxCalls /\ ncalls' = ncalls + 1
  /\ IF k \in DOMAIN cache
     THEN /\ ret' = [key |-> k, val |-> cache[k]]
          /\ order' = Touch(k)
          /\ cache' = IF ByReference /\ mutate THEN [cache EXCEPT ![k] = @ + 1] ELSE cache
     ELSE LET full == Capacity > 0 /\ Len(order) >= Capacity
              victim == order[1]
              kept == IF full THEN [x \in DOMAIN cache \ {victim} |-> cache[x]] ELSE cache
              ord2 == IF full THEN Tail(order) ELSE order
          IN /\ ret' = [key |-> k, val |-> F(k)]
             /\ cache' = IF Capacity = 0 THEN cache
                         ELSE [x \in DOMAIN kept \cup {k} |-> IF x = k THEN (IF ByReference /\ mutate THEN F(k) + 1 ELSE F(k)) ELSE kept[x]]
             /\ order' = IF Capacity = 0 THEN order ELSE ord2 \o <<k>>
Next == \E k \in Keys : \E m \in BOOLEAN : Call(k, m)
Spec == Init /\ [][Next]_vars
ReturnsFunctionValue == ret.val = F(ret.key)
Bounded == Capacity > 0 => Len(order) <= Capacity
=============================================================================
