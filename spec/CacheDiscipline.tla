--------------------------- MODULE CacheDiscipline ---------------------------
(***************************************************************************)
(* Finite abstraction of the object life-cycle for C12: per derived slot a  *)
(* flag in {empty, fresh, stale}.                                           *)
(*   DependsOn(slot), Writes(mutator)  - semantic tables (which components  *)
(*       of the definition a slot is computed from / a mutator changes);    *)
(*   Populates(reader), Effect(mutator, slot) in {cleared, refreshed, kept} *)
(*       - implementation-shaped tables PROBED from the working tree at     *)
(*       check time (mbt/cacheprobe.py) and passed in as JSON.              *)
(* TLC explores the COMPLETE graph of flag states, i.e. every history of    *)
(* any length.  A reachable stale flag is a candidate violation; it is      *)
(* confirmed (or the tables refined) by replaying the minimal history.      *)
(***************************************************************************)
EXTENDS Integers, TLC, Json, IOUtils, Sequences, FiniteSets
T == JsonDeserialize(IOEnv.TABLES)[IOEnv.CLS]
SetOf(s) == {s[i] : i \in 1..Len(s)}
Slots == SetOf(T.slots)
Muts == SetOf(T.muts)
Readers == SetOf(T.readers)
VARIABLES flag, last
vars == <<flag, last>>
Init == flag = [s \in Slots |-> "empty"] /\ last = "init"
Read(r) == /\ flag' = [s \in Slots |-> IF s \in SetOf(T.populates[r]) /\ flag[s] = "empty" THEN "fresh" ELSE flag[s]]
           /\ last' = r
NewFlag(m, s) ==
  LET eff == T.effect[m][s]
      touched == SetOf(T.writes[m]) \cap SetOf(T.depends[s]) # {} IN
  IF eff = "cleared" THEN "empty"
  ELSE IF eff = "refreshed" THEN (IF flag[s] = "empty" THEN "empty" ELSE "fresh")
  ELSE IF flag[s] = "fresh" /\ touched THEN "stale" ELSE flag[s]
Mutate(m) ==
  /\ flag' = [s \in Slots |-> NewFlag(m, s)]
  \* the stale-CREATING transition is reported (candidates are confirmed by the harness against the real object)
  /\ \A s \in Slots : (NewFlag(m, s) = "stale" /\ flag[s] # "stale") => PrintT("STALE " \o ToJson([cls |-> IOEnv.CLS, mut |-> m, slot |-> s]))
  /\ last' = m
Next == (\E r \in Readers : Read(r)) \/ (\E m \in Muts : Mutate(m))
Spec == Init /\ [][Next]_vars
TypeOK == \A s \in Slots : flag[s] \in {"empty", "fresh", "stale"}
=============================================================================
