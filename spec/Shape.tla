------------------------------- MODULE Shape -------------------------------
(***************************************************************************)
(* The abstract definition ("def") of one spline object and the function   *)
(* it denotes.                                                             *)
(*   s.deg  : <<p_u [, p_v [, p_w]]>>      s.kv : one knot vector per dir   *)
(*   s.size : control points per direction                                  *)
(*   s.P    : flat control net, index  v + size_v * (u + size_u * w)        *)
(*            (v fastest, then u, then w), each point a sequence of         *)
(*            rationals; homogeneous (x*w, ..., w) when s.rat               *)
(* Everything here is a DEFINITION (oracle).                                *)
(***************************************************************************)
EXTENDS Basis

PDim(s) == Len(s.deg)
TrivKV == <<Zero, One>>
\* three-direction view: missing directions are degree 0 with one control point
D3(s) == TLCEval([deg  |-> [d \in 1..3 |-> IF d <= PDim(s) THEN s.deg[d] ELSE 0],
          kv   |-> [d \in 1..3 |-> IF d <= PDim(s) THEN s.kv[d] ELSE TrivKV],
          size |-> [d \in 1..3 |-> IF d <= PDim(s) THEN s.size[d] ELSE 1]])
P3(prm) == TLCEval([d \in 1..3 |-> IF d <= Len(prm) THEN prm[d] ELSE Zero])
CDim(s) == Len(s.P[1])                         \* stored coordinates per control point
\* 1-based position in s.P of control point (iu, iv, iw), all 0-based
Idx(size, iu, iv, iw) == iv + size[2] * (iu + size[1] * iw) + 1
NumPts(s) == ProdInts(s.size)
WellFormed(s) ==
  /\ Len(s.kv) = PDim(s) /\ Len(s.size) = PDim(s) /\ Len(s.P) = NumPts(s)
  /\ \A d \in 1..PDim(s) : /\ s.deg[d] >= 1 /\ s.size[d] >= s.deg[d] + 1
                           /\ Len(s.kv[d]) = s.size[d] + s.deg[d] + 1 /\ ValidKV(s.kv[d])
  /\ \A i \in 1..Len(s.P) : Len(s.P[i]) = CDim(s)
  /\ s.rat => \A i \in 1..Len(s.P) : RGt(s.P[i][CDim(s)], Zero)
Domain(s) == [d \in 1..PDim(s) |-> <<DomLo(s.deg[d], s.kv[d]), DomHi(s.deg[d], s.kv[d])>>]
InDom(s, prm) == \A d \in 1..PDim(s) : InDomain(s.deg[d], s.kv[d], prm[d])

\* weighted tensor sum with per-direction coefficient rows B[d] (length deg+1) anchored at span sp[d]
TensorSum(s, sp, B) ==
  LET t == D3(s)  cd == CDim(s)
      InW(a, b) == VSum([c \in 1..(t.deg[3] + 1) |->
                      VScale(B[3][c], s.P[Idx(t.size, sp[1] - t.deg[1] + a - 1, sp[2] - t.deg[2] + b - 1, sp[3] - t.deg[3] + c - 1)])], cd)
      InV(a) == VSum([b \in 1..(t.deg[2] + 1) |-> VScale(B[2][b], InW(a, b))], cd)
  IN  VSum([a \in 1..(t.deg[1] + 1) |-> VScale(B[1][a], InV(a))], cd)
Spans(s, prm) == LET t == D3(s) q == P3(prm) IN
  TLCEval([d \in 1..3 |-> SpanDef(t.deg[d], t.kv[d], t.size[d], q[d])])
\* homogeneous (or plain) position: sum of N_u N_v N_w P
PointH(s, prm) ==
  LET t == D3(s) q == P3(prm) IN
  TensorSum(s, Spans(s, prm), TLCEval([d \in 1..3 |-> ActiveN(t.deg[d], t.kv[d], q[d])]))
Project(pw) == LET n == Len(pw) IN TLCEval([k \in 1..(n - 1) |-> RDiv(pw[k], pw[n])])
Point(s, prm) == IF s.rat THEN Project(PointH(s, prm)) ELSE PointH(s, prm)
\* mixed partial derivative of the homogeneous position, ks = orders per direction
DerivH(s, prm, ks) ==
  LET t == D3(s) q == P3(prm)
      k3 == [d \in 1..3 |-> IF d <= Len(ks) THEN ks[d] ELSE 0] IN
  TensorSum(s, Spans(s, prm), TLCEval([d \in 1..3 |-> ActiveDN(t.deg[d], t.kv[d], q[d], k3[d])]))

\* rational derivatives (curves): C^(k) = (A^(k) - sum_{i=1..k} C(k,i) w^(i) C^(k-i)) / w
RECURSIVE RatDerivCurve(_, _, _)
RatDerivCurve(s, prm, k) ==
  LET cd == CDim(s)
      Aw(j) == DerivH(s, prm, <<j>>)
      A(j) == [x \in 1..(cd - 1) |-> Aw(j)[x]]
      w(j) == Aw(j)[cd]
      corr == VSum([i \in 1..k |-> VScale(RMul(RI(Binom(k, i)), w(i)), RatDerivCurve(s, prm, k - i))], cd - 1)
  IN  VScale(RInv(w(0)), VSub(A(k), corr))
\* rational derivatives (surfaces), NURBS Book Eq 4.20
RECURSIVE RatDerivSurf(_, _, _, _)
RatDerivSurf(s, prm, k, l) ==
  LET cd == CDim(s)
      Aw(a, b) == DerivH(s, prm, <<a, b>>)
      A(a, b) == [x \in 1..(cd - 1) |-> Aw(a, b)[x]]
      w(a, b) == Aw(a, b)[cd]
      c1 == VSum([i \in 1..k |-> VScale(RMul(RI(Binom(k, i)), w(i, 0)), RatDerivSurf(s, prm, k - i, l))], cd - 1)
      c2 == VSum([j \in 1..l |-> VScale(RMul(RI(Binom(l, j)), w(0, j)), RatDerivSurf(s, prm, k, l - j))], cd - 1)
      c3 == VSum([i \in 1..k |-> VScale(RI(Binom(k, i)),
                 VSum([j \in 1..l |-> VScale(RMul(RI(Binom(l, j)), w(i, j)), RatDerivSurf(s, prm, k - i, l - j))], cd - 1))], cd - 1)
  IN  VScale(RInv(w(0, 0)), VSub(VSub(VSub(A(k, l), c1), c2), c3))
Deriv(s, prm, ks) ==
  IF ~s.rat THEN DerivH(s, prm, ks)
  ELSE IF PDim(s) = 1 THEN RatDerivCurve(s, prm, ks[1])
  ELSE RatDerivSurf(s, prm, ks[1], ks[2])

\* --- views -----------------------------------------------------------------
Weights(s) == TLCEval([i \in 1..Len(s.P) |-> IF s.rat THEN s.P[i][CDim(s)] ELSE One])
Ctrlpts(s) == TLCEval([i \in 1..Len(s.P) |-> IF s.rat THEN Project(s.P[i]) ELSE s.P[i]])
\* (x, y, z), w -> (x w, y w, z w, w)
Combine(P, W) == TLCEval([i \in 1..Len(P) |-> VScale(W[i], P[i]) \o <<W[i]>>])
RECURSIVE RMinSeq(_)
RMinSeq(q) == IF Len(q) = 1 THEN q[1] ELSE RMin(q[1], RMinSeq(Tail(q)))
RECURSIVE RMaxSeq(_)
RMaxSeq(q) == IF Len(q) = 1 THEN q[1] ELSE RMax(q[1], RMaxSeq(Tail(q)))
BBox(s) == LET C == Ctrlpts(s) d == Len(C[1]) IN
  <<[k \in 1..d |-> RMinSeq([i \in 1..Len(C) |-> C[i][k]])],
    [k \in 1..d |-> RMaxSeq([i \in 1..Len(C) |-> C[i][k]])]>>
\* parameters of the sampled grid: per direction linspace over the domain; flat order is
\* u outermost, then v, then w innermost (as the evaluators loop)
GridParams(s, ns) ==
  LET t == D3(s)
      n3 == [d \in 1..3 |-> IF d <= PDim(s) THEN ns[d] ELSE 1]
      L == [d \in 1..3 |-> IF d <= PDim(s) THEN Linspace(DomLo(t.deg[d], t.kv[d]), DomHi(t.deg[d], t.kv[d]), n3[d]) ELSE <<Zero>>]
      tot == n3[1] * n3[2] * n3[3]
  IN [x \in 1..tot |->
        LET z == x - 1
            iw == z % n3[3]  iv == (z \div n3[3]) % n3[2]  iu == z \div (n3[3] * n3[2])
        IN  [d \in 1..PDim(s) |-> IF d = 1 THEN L[1][iu + 1] ELSE IF d = 2 THEN L[2][iv + 1] ELSE L[3][iw + 1]]]
SampleGrid(s, ns) == LET G == GridParams(s, ns) IN TLCEval([x \in 1..Len(G) |-> Point(s, G[x])])

\* --- "denotes the same function" ---------------------------------------------
\* product of per-direction parameter sets, as sequences <<u [,v [,w]]>>
ParamProduct(sets) ==
  IF Len(sets) = 1 THEN {<<a>> : a \in sets[1]}
  ELSE IF Len(sets) = 2 THEN {<<a, b>> : a \in sets[1], b \in sets[2]}
  ELSE {<<a, b, c>> : a \in sets[1], b \in sets[2], c \in sets[3]}
\* deg+1 points in every span of the finer shape B, per direction: enough to identify
\* a piecewise polynomial of that degree (polynomial identity theorem)
SampleParams(B) == ParamProduct([d \in 1..PDim(B) |-> SpanSamples(B.deg[d], B.kv[d], B.deg[d])])
SameH(A, B) == \A prm \in SampleParams(B) : PointH(A, prm) = PointH(B, prm)
SamePts(A, B) == \A prm \in SampleParams(B) : Point(A, prm) = Point(B, prm)
\* active control points (0-based flat indices) at a parameter
ActiveIdx(s, prm) == LET t == D3(s) sp == Spans(s, prm) IN
  {Idx(t.size, sp[1] - a, sp[2] - b, sp[3] - c) - 1 : a \in 0..t.deg[1], b \in 0..t.deg[2], c \in 0..t.deg[3]}

\* --- deterministic generic control nets --------------------------------------
\* integer coordinates without symmetry; weights from {1/2, 1, 2, 3}
NetCoord(i, k, seed) == ((i * i * 3 + i * (7 + 2 * k) + k * 5 + seed * 11 + ((i * k) % 3)) % 13) - 6
NetW(i, seed) == LET j == (i * 3 + seed) % 4 IN IF j = 0 THEN One ELSE IF j = 1 THEN RI(2) ELSE IF j = 2 THEN Half ELSE RI(3)
GenNet(n, dim, rat, seed) ==
  TLCEval([i \in 1..n |->
     IF rat THEN TLCEval([k \in 1..(dim + 1) |-> IF k <= dim THEN RMul(RI(NetCoord(i, k, seed)), NetW(i, seed)) ELSE NetW(i, seed)])
     ELSE TLCEval([k \in 1..dim |-> RI(NetCoord(i, k, seed))])])
MkShape(degs, kvs, dim, rat, seed) ==
  LET sizes == TLCEval([d \in 1..Len(degs) |-> NumCtrl(degs[d], kvs[d])]) IN
  [deg |-> degs, kv |-> kvs, size |-> sizes, rat |-> rat, P |-> GenNet(ProdInts(sizes), dim, rat, seed)]
=============================================================================
