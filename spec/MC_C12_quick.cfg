SPECIFICATION Spec
CONSTANTS
  Shapes0 <- MCShapes
  Acts = {"read", "insert", "remove", "refine", "reverse", "transpose", "flip", "set_ctrlpts", "set_weights", "scale_weights", "translate", "scale", "sample_size", "sample_size_dir", "edit_ctrlpts", "edit_ctrlptsw"}
  MaxDepth = 3
  DepthCurve = 3
  DepthSurf = 3
  DepthVol = 2
  Seed = 1
INVARIANT T_WellFormed
INVARIANT Emit
PROPERTY P_ReadPure
CHECK_DEADLOCK FALSE
