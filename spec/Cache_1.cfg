SPECIFICATION Spec
CONSTANTS
  Keys = {0, 1, 2}
  Capacity = 1
  MaxCalls = 5
  ByReference = FALSE
INVARIANT ReturnsFunctionValue
INVARIANT Bounded
CHECK_DEADLOCK FALSE
