------------------------------- MODULE Basis -------------------------------
(***************************************************************************)
(* B-spline basis functions.                                               *)
(* DEFINITIONS: N (Cox-de Boor recursion, half-open spans, the last        *)
(*   non-empty span closed at the end of the knot vector), DN (k-th        *)
(*   derivative by the derivative formula, right-continuous).              *)
(* TRANSCRIPTIONS of geomdl.helpers: BasisFuns (A2.2), OneBasisFun (A2.4), *)
(*   AllBasisFuns.                                                          *)
(***************************************************************************)
EXTENDS Knots

\* 0/0 := 0 convention of the definition
RQuot(a, b) == IF b[1] = 0 THEN Zero ELSE RDiv(a, b)

RECURSIVE N(_, _, _, _)
N(i, p, U, u) ==
  IF p = 0 THEN
     IF \/ RLe(At(U, i), u) /\ RLt(u, At(U, i + 1))
        \/ u = Last(U) /\ RLt(At(U, i), At(U, i + 1)) /\ At(U, i + 1) = Last(U)
     THEN One ELSE Zero
  ELSE RAdd(RMul(RQuot(RSub(u, At(U, i)), RSub(At(U, i + p), At(U, i))), N(i, p - 1, U, u)),
            RMul(RQuot(RSub(At(U, i + p + 1), u), RSub(At(U, i + p + 1), At(U, i + 1))), N(i + 1, p - 1, U, u)))

\* N restricted to the evaluation domain [U_p, U_nc]: for unclamped vectors the
\* domain end is an interior knot and the shape is defined there by continuity
\* from the left (NURBS Book: the last span is closed at the domain end).
RECURSIVE NSpan(_, _, _, _, _)
NSpan(i, p, U, u, k) ==   \* value of N_{i,p} on the span k treated as containing u
  IF p = 0 THEN IF i = k THEN One ELSE Zero
  ELSE RAdd(RMul(RQuot(RSub(u, At(U, i)), RSub(At(U, i + p), At(U, i))), NSpan(i, p - 1, U, u, k)),
            RMul(RQuot(RSub(At(U, i + p + 1), u), RSub(At(U, i + p + 1), At(U, i + 1))), NSpan(i + 1, p - 1, U, u, k)))
NDom(i, p, U, u) == NSpan(i, p, U, u, SpanDef(p, U, NumCtrl(p, U), u))

\* k-th derivative of N_{i,p} on the span containing u
RECURSIVE DNSpan(_, _, _, _, _, _)
DNSpan(i, p, U, u, k, sp) ==
  IF k = 0 THEN NSpan(i, p, U, u, sp)
  ELSE IF k > p THEN Zero
  ELSE RMul(RI(p), RSub(RQuot(DNSpan(i, p - 1, U, u, k - 1, sp), RSub(At(U, i + p), At(U, i))),
                        RQuot(DNSpan(i + 1, p - 1, U, u, k - 1, sp), RSub(At(U, i + p + 1), At(U, i + 1)))))
DN(i, p, U, u, k) == DNSpan(i, p, U, u, k, SpanDef(p, U, NumCtrl(p, U), u))

\* all values on the active span: <<N_{span-p}, ..., N_{span}>>
ActiveN(p, U, u) == LET sp == SpanDef(p, U, NumCtrl(p, U), u) IN
  TLCEval([j \in 1..(p + 1) |-> NSpan(sp - p + j - 1, p, U, u, sp)])
ActiveDN(p, U, u, k) == LET sp == SpanDef(p, U, NumCtrl(p, U), u) IN
  TLCEval([j \in 1..(p + 1) |-> DNSpan(sp - p + j - 1, p, U, u, k, sp)])

\* --- transcription of helpers.basis_function (A2.2) ----------------------
\* state: Nv (0-based function on 0..p), left, right; j outer loop, r inner loop
RECURSIVE BFInner(_, _, _, _, _, _)
BFInner(Nv, left, right, j, r, saved) ==
  IF r < j THEN
    LET temp == RDiv(Nv[r], RAdd(right[r + 1], left[j - r]))
        Nv2  == [Nv EXCEPT ![r] = RAdd(saved, RMul(right[r + 1], temp))]
    IN  BFInner(Nv2, left, right, j, r + 1, RMul(left[j - r], temp))
  ELSE [Nv EXCEPT ![j] = saved]
RECURSIVE BFOuter(_, _, _, _, _, _, _)
BFOuter(p, U, span, u, j, Nv, lr) ==
  IF j > p THEN Nv ELSE
  LET left  == [lr.left  EXCEPT ![j] = RSub(u, At(U, span + 1 - j))]
      right == [lr.right EXCEPT ![j] = RSub(At(U, span + j), u)]
  IN  BFOuter(p, U, span, u, j + 1, BFInner(Nv, left, right, j, 0, Zero), [left |-> left, right |-> right])
BasisFuns(p, U, span, u) ==
  LET z == [x \in 0..p |-> Zero]
      Nv == BFOuter(p, U, span, u, 1, [x \in 0..p |-> One], [left |-> z, right |-> z])
  IN  TLCEval([j \in 1..(p + 1) |-> Nv[j - 1]])
AllBasisFuns(p, U, span, u) ==   \* [j][i] for 0<=j<=i<=p  -> sequence over i of BasisFuns(i)
  TLCEval([i \in 1..(p + 1) |-> BasisFuns(i - 1, U, span, u)])
=============================================================================
