------------------------------ MODULE MC_C09b ------------------------------
(* C09, pure conversions: helper pairs are mutual inverses, type conversion   *)
(* evaluates identically, the weighted grid applies each point's own weight.  *)
EXTENDS Ops, Lattice, TLC, Json
CONSTANTS MaxGrid, Seed
VARIABLES c, out
vars2 == <<c, out>>

B1 == <<1, MkClamped(1, <<Half>>, <<1>>)>>
B2 == <<2, MkClamped(2, <<Half>>, <<0>>)>>
K2 == <<2, MkClamped(2, <<Half>>, <<1>>)>>
ConvShapes == Curves({K2, B1}, {2, 3}, {FALSE}, Seed) \cup Surfaces({B1}, {B2, K2}, {3}, {FALSE}, Seed) \cup Surfaces({K2}, {B1}, {3}, {FALSE}, Seed)
              \* volumes: sizes and degrees all different, and equal degree / size with different knots in two directions
              \cup Volumes({B1}, {B2}, {K2}, {FALSE}, Seed) \cup Volumes({K2}, {B1}, {B2}, {FALSE}, Seed)
              \cup Volumes({B1}, {B2}, {<<1, MkClamped(1, <<Half>>, <<0>>)>>}, {FALSE}, Seed)
Cases == {[kind |-> "helpers", n |-> n, dim |-> d, k |-> k] : n \in 1..4, d \in {2, 3}, k \in 1..2}
         \cup {[kind |-> "convert", sh |-> s] : s \in ConvShapes}
         \cup {[kind |-> "grid", nu |-> a, nv |-> b, k |-> k] : a \in 1..MaxGrid, b \in 1..MaxGrid, k \in 1..2}
InitB == c \in Cases /\ out = [op |-> "init"]

Ones(n) == Rep(One, n)
Helpers ==
  /\ out.op = "init" /\ c.kind = "helpers"
  /\ LET P == GenNet(c.n, c.dim, FALSE, c.k)
         W == TLCEval([i \in 1..c.n |-> NetW(i, c.k)])
         Pw == Combine(P, W)
         xyzw == TLCEval([i \in 1..c.n |-> P[i] \o <<W[i]>>])        \* (x, y, z, w)
     IN out' = [op |-> "helpers", P |-> P, W |-> W, Pw |-> Pw, xyzw |-> xyzw, Pw1 |-> Combine(P, Ones(c.n))]
  /\ UNCHANGED c
ToNurbs(s) == [s EXCEPT !.rat = TRUE, !.P = Combine(s.P, Ones(Len(s.P)))]
Convert ==
  /\ out.op = "init" /\ c.kind = "convert"
  /\ out' = [op |-> "convert", nurbs |-> ToNurbs(c.sh)]
  /\ UNCHANGED c
\* CPGen.GridWeighted: (nu+1) x (nv+1) points on a sx x sy rectangle, flat weight index j + i (nv+1) (v fastest)
Grid ==
  /\ out.op = "init" /\ c.kind = "grid"
  /\ LET nu == c.nu nv == c.nv sx == RI(3) sy == RI(2)
         W == TLCEval([x \in 1..((nu + 1) * (nv + 1)) |-> NetW(x, c.k)])
         g == TLCEval([i \in 1..(nu + 1) |-> [j \in 1..(nv + 1) |->
                 LET w == W[(j - 1) + (i - 1) * (nv + 1) + 1]
                     pt == <<RDiv(RMul(RI(i - 1), sx), RI(nu)), RDiv(RMul(RI(j - 1), sy), RI(nv)), Zero>>
                 IN VScale(w, pt) \o <<w>>]])
     IN out' = [op |-> "grid", W |-> W, grid |-> g, sx |-> sx, sy |-> sy]
  /\ UNCHANGED c
NextB == Helpers \/ Convert \/ Grid
SpecB == InitB /\ [][NextB]_vars2

T_Inverse == out.op = "helpers" =>
   /\ \A i \in 1..c.n : Project(out.Pw[i]) = out.P[i] /\ out.Pw[i][c.dim + 1] = out.W[i]
T_Convert == out.op = "convert" => SamePts(c.sh, out.nurbs) /\ Ctrlpts(out.nurbs) = c.sh.P
EmitB == out.op # "init" => PrintT("CASE " \o ToJson([c |-> c, out |-> out]))
=============================================================================
