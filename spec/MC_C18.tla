------------------------------ MODULE MC_C18 ------------------------------
(* C18: shapes stay inside the hull of their (active) control points.       *)
EXTENDS Ops, Lattice, TLC, Json
CONSTANTS CurveP, Seed
VARIABLES sh, out
vars == <<sh, out>>
CurveSet == Curves(ClampedDirs(CurveP, KQ, 2), {2, 3}, BOOLEAN, Seed) \cup Curves(UniformDirs(CurveP \cap 1..3, 1), {2}, BOOLEAN, Seed)
SD1 == ClampedDirs({1, 2}, <<R(1,4), R(3,4)>>, 1)
SurfSet == {s \in Surfaces(SD1, SD1, {3}, BOOLEAN, Seed) : s.size[1] # s.size[2]}
VD == ClampedDirs({1, 2}, <<Half>>, 1)
VolSet == {s \in Volumes(VD, VD, ClampedDirs({1}, <<Half>>, 1), BOOLEAN, Seed) : DiffSizes(s) /\ s.deg[1] # s.deg[2]}
EqualW(s) == [s EXCEPT !.P = Combine(Ctrlpts(s), [i \in 1..Len(s.P) |-> R(5, 2)])]
EqualSet == {EqualW(s) : s \in {x \in Curves(ClampedDirs({2, 3}, KQ, 1), {2, 3}, {TRUE}, Seed) \cup Surfaces(ClampedDirs({2}, <<Half>>, 1), ClampedDirs({1}, <<Half>>, 1), {3}, {TRUE}, Seed) : x.rat}}
Init == sh \in CurveSet \cup SurfSet \cup VolSet \cup EqualSet /\ out = [op |-> "init"]

\* convex-combination certificate: coefficients of the active (unweighted) control points
Lambda(s, prm) ==
  LET t == D3(s) q == P3(prm) sp == Spans(s, prm)
      B == [d \in 1..3 |-> ActiveN(t.deg[d], t.kv[d], q[d])]
      W == Weights(s)
      idx(a, b, c) == Idx(t.size, sp[1] - t.deg[1] + a - 1, sp[2] - t.deg[2] + b - 1, sp[3] - t.deg[3] + c - 1)
      raw == [x \in 1..((t.deg[1] + 1) * (t.deg[2] + 1) * (t.deg[3] + 1)) |->
                LET z == x - 1
                    c == z % (t.deg[3] + 1)  b == (z \div (t.deg[3] + 1)) % (t.deg[2] + 1)  a == z \div ((t.deg[3] + 1) * (t.deg[2] + 1))
                IN [i |-> idx(a + 1, b + 1, c + 1), n |-> RMul(RMul(RMul(B[1][a + 1], B[2][b + 1]), B[3][c + 1]), W[idx(a + 1, b + 1, c + 1)])]]
      tot == RSum([x \in 1..Len(raw) |-> raw[x].n])
  IN TLCEval([x \in 1..Len(raw) |-> [i |-> raw[x].i, lam |-> RDiv(raw[x].n, tot)]])
Hull(prm) == /\ out.op = "init"
   /\ out' = [op |-> "hull", prm |-> prm, pt |-> Point(sh, prm), cert |-> Lambda(sh, prm), bbox |-> BBox(sh)] /\ UNCHANGED sh
\* squared lengths for the curve length bounds
Dist2(a, b) == VNorm2(VSub(a, b))
Length == /\ out.op = "init" /\ PDim(sh) = 1 /\ ~sh.rat
   /\ LET C == Ctrlpts(sh) n == Len(C) IN
      out' = [op |-> "length", chord2 |-> Dist2(Point(sh, <<DomLo(sh.deg[1], sh.kv[1])>>), Point(sh, <<DomHi(sh.deg[1], sh.kv[1])>>)),
              poly2 |-> [i \in 1..(n - 1) |-> Dist2(C[i], C[i + 1])], clamped |-> Clamped(sh.deg[1], sh.kv[1])] /\ UNCHANGED sh
\* clamped surfaces and volumes: the sampled grid starts at the first and ends at the last control point
AllClamped == \A d \in 1..PDim(sh) : Clamped(sh.deg[d], sh.kv[d])
Ends == /\ out.op = "init" /\ PDim(sh) >= 2 /\ AllClamped
   /\ LET C == Ctrlpts(sh) lo == [d \in 1..PDim(sh) |-> DomLo(sh.deg[d], sh.kv[d])] hi == [d \in 1..PDim(sh) |-> DomHi(sh.deg[d], sh.kv[d])] IN
      out' = [op |-> "ends", first |-> C[1], last |-> C[Len(C)], plo |-> Point(sh, lo), phi |-> Point(sh, hi), bbox |-> BBox(sh)] /\ UNCHANGED sh
PQ == IF PDim(sh) = 1 THEN 2 ELSE 1
Next == (\E prm \in ShapeParams(sh, PQ) : Hull(prm)) \/ Length \/ Ends
Spec == Init /\ [][Next]_vars

T_Ends == out.op = "ends" => out.plo = out.first /\ out.phi = out.last
T_Hull == out.op = "hull" =>
   LET C == Ctrlpts(sh) IN
   /\ \A x \in 1..Len(out.cert) : RGe(out.cert[x].lam, Zero)
   /\ RSum([x \in 1..Len(out.cert) |-> out.cert[x].lam]) = One
   /\ out.pt = VSum([x \in 1..Len(out.cert) |-> VScale(out.cert[x].lam, C[out.cert[x].i])], Len(C[1]))
   /\ {out.cert[x].i - 1 : x \in 1..Len(out.cert)} = ActiveIdx(sh, out.prm)
T_InBBox == out.op = "hull" => \A k \in 1..Len(out.pt) : RLe(out.bbox[1][k], out.pt[k]) /\ RLe(out.pt[k], out.bbox[2][k])
EmitC == out.op # "init" => PrintT("CASE " \o ToJson([sh |-> sh, out |-> out]))
=============================================================================
