-------------------------------- MODULE Mesh --------------------------------
(* Tessellation of the parametric rectangle (integers only).                  *)
(* Samples: su x sv grid, flat index j + i sv (v fastest).  With vertex        *)
(* spacing s the mesh uses the samples i, j in {0, s, 2s, ...}.                *)
EXTENDS Planar

NV(sz, s) == ((sz - 1) \div s) + 1                \* vertices per direction
\* vertex k (0-based id, v fastest): lattice position (in units of samples) and the flat sample index
VertexPos(su, sv, s, k) == LET nv == NV(sv, s) IN <<(k \div nv) * s, (k % nv) * s>>
SampleIdx(sv, pos) == pos[2] + pos[1] * sv
\* the two triangles of cell (a, b), 0-based vertex ids: (v1, v2, v3), (v1, v3, v4) with
\* v1 = (a, b), v2 = (a+1, b), v3 = (a+1, b+1), v4 = (a, b+1)
Vid(nv, a, b) == b + a * nv
CellTris(nv, a, b) == << <<Vid(nv, a, b), Vid(nv, a + 1, b), Vid(nv, a + 1, b + 1)>>,
                          <<Vid(nv, a, b), Vid(nv, a + 1, b + 1), Vid(nv, a, b + 1)>> >>
TriMesh(su, sv, s) ==
  LET nu == NV(su, s) nv == NV(sv, s) IN
  [x \in 1..(2 * (nu - 1) * (nv - 1)) |->
     LET cell == (x - 1) \div 2 a == cell \div (nv - 1) b == cell % (nv - 1) IN CellTris(nv, a, b)[((x - 1) % 2) + 1]]
QuadMesh(su, sv) ==
  [x \in 1..((su - 1) * (sv - 1)) |->
     LET a == (x - 1) \div (sv - 1) b == (x - 1) % (sv - 1) IN
     <<Vid(sv, a, b), Vid(sv, a + 1, b), Vid(sv, a + 1, b + 1), Vid(sv, a, b + 1)>>]
\* ---- validity of a triangulation given as sequences of vertex-id triples over V vertices with positions pos[id + 1] ----
Edges(t) == {{t[1], t[2]}, {t[2], t[3]}, {t[3], t[1]}}
AllEdges(T) == UNION {Edges(T[x]) : x \in 1..Len(T)}
Incidence(T, e) == Cardinality({x \in 1..Len(T) : e \in Edges(T[x])})
TriArea2(pos, t) == IsLeft(pos[t[1] + 1], pos[t[2] + 1], pos[t[3] + 1])
RECURSIVE SumArea(_, _, _)
SumArea(pos, T, x) == IF x > Len(T) THEN 0 ELSE TriArea2(pos, T[x]) + SumArea(pos, T, x + 1)
OnBorder(p, w, h) == p[1] = 0 \/ p[1] = w \/ p[2] = 0 \/ p[2] = h
ValidTriangulation(pos, T, w, h) ==
  LET V == Len(pos) E == AllEdges(T) IN
  /\ \A x \in 1..Len(T) : \A k \in 1..3 : T[x][k] \in 0..(V - 1)                         \* indices in range
  /\ \A x \in 1..Len(T) : TriArea2(pos, T[x]) > 0                                          \* consistent (counter-clockwise) orientation
  /\ SumArea(pos, T, 1) = 2 * w * h                                                       \* tiles the rectangle exactly once
  /\ \A e \in E : LET a == CHOOSE q \in e : TRUE b == CHOOSE q \in e : q # a IN
        Incidence(T, e) = (IF (pos[a + 1][1] = pos[b + 1][1] /\ pos[a + 1][1] \in {0, w}) \/ (pos[a + 1][2] = pos[b + 1][2] /\ pos[a + 1][2] \in {0, h})
                           THEN 1 ELSE 2)                                                  \* interior edges shared by two, boundary edges by one
  /\ V - Cardinality(E) + Len(T) = 1                                                       \* Euler characteristic of a disc
  /\ {T[x][k] : x \in 1..Len(T), k \in 1..3} = 0..(V - 1)                                   \* every vertex used, consecutively numbered
\* ---- trims: closed polygon (in the same integer lattice units); classification of a cell [a, a+s] x [b, b+s] ----
CellCorners(a, b, s) == << <<a, b>>, <<a + s, b>>, <<a + s, b + s>>, <<a, b + s>> >>
StrictInside(q, poly) == ~OnBoundary(Dbl(q), poly) /\ InsideDef(Dbl(q), poly)
StrictOutside(q, poly) == ~OnBoundary(Dbl(q), poly) /\ ~InsideDef(Dbl(q), poly)
CellTouchesBoundary(a, b, s, poly) ==
  LET C == CellCorners(a, b, s) IN
  \E i \in 1..(Len(poly) - 1) : \E k \in 1..4 : SegsIntersect(poly[i], poly[i + 1], C[k], C[(k % 4) + 1])
CellClass(a, b, s, poly) ==
  LET C == CellCorners(a, b, s) IN
  IF CellTouchesBoundary(a, b, s, poly) THEN "band"
  ELSE IF \A k \in 1..4 : StrictInside(C[k], poly) THEN "inside"
  ELSE IF (\A k \in 1..4 : StrictOutside(C[k], poly)) /\ ~\E i \in 1..(Len(poly) - 1) : (poly[i][1] > a /\ poly[i][1] < a + s /\ poly[i][2] > b /\ poly[i][2] < b + s)
       THEN "outside" ELSE "band"
=============================================================================
