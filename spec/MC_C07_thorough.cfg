SPECIFICATION Spec
CONSTANTS
  CurveP = {1,2,3}
  CurveInt = 3
  SurfMode = 2
  Seed = 2
INVARIANT T_Split
INVARIANT T_Decompose
INVARIANT Emit
CHECK_DEADLOCK FALSE
