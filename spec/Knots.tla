------------------------------- MODULE Knots -------------------------------
(***************************************************************************)
(* Knot vectors: sequences of rationals, code index i is At(U, i).         *)
(* DEFINITIONS (oracles): ValidKV, Mult, SpanDef, DomLo/DomHi, NormalizeKV,*)
(*   GenerateKV, CheckKV.                                                   *)
(* TRANSCRIPTIONS of geomdl.helpers: FindSpanLinear, FindSpanBinary (same  *)
(*   low/high/mid updates and the same rounding of the first mid).         *)
(***************************************************************************)
EXTENDS Rat, SeqX

ValidKV(U) == \A i \in 1..(Len(U) - 1) : RLe(U[i], U[i + 1])
Mult(u, U) == Count(U, u)
NumCtrl(p, U) == Len(U) - p - 1
DomLo(p, U) == At(U, p)
DomHi(p, U) == At(U, NumCtrl(p, U))
InDomain(p, U, u) == RLe(DomLo(p, U), u) /\ RLe(u, DomHi(p, U))
Clamped(p, U) == /\ \A i \in 0..p : At(U, i) = At(U, 0)
                 /\ \A i \in 0..p : At(U, Len(U) - 1 - i) = Last(U)
Breaks(U) == RangeOf(U)

\* --- definition of the knot span ---------------------------------------
\* candidates: non-empty half-open intervals [U_k, U_k+1) with p <= k <= nc-1
SpanCands(p, U, nc, u) ==
  IF u = At(U, nc)
  THEN LET S == {k \in p..(nc - 1) : RLt(At(U, k), At(U, k + 1))}
       IN  {k \in S : \A j \in S : j <= k}
  ELSE {k \in p..(nc - 1) : RLe(At(U, k), u) /\ RLt(u, At(U, k + 1))}
SpanDef(p, U, nc, u) == CHOOSE k \in SpanCands(p, U, nc, u) : TRUE
SpanUnique(p, U, nc, u) == Cardinality(SpanCands(p, U, nc, u)) = 1

\* --- transcriptions ----------------------------------------------------
RECURSIVE LinLoop(_, _, _, _)
LinLoop(U, nc, u, span) ==
  IF span < nc /\ RLe(At(U, span), u) THEN LinLoop(U, nc, u, span + 1) ELSE span
FindSpanLinear(p, U, nc, u) == LinLoop(U, nc, u, p + 1) - 1

RECURSIVE BinLoop(_, _, _, _, _)
BinLoop(U, u, low, high, mid) ==
  IF RLt(u, At(U, mid)) \/ RGe(u, At(U, mid + 1))
  THEN LET lo2 == IF RLt(u, At(U, mid)) THEN low ELSE mid
           hi2 == IF RLt(u, At(U, mid)) THEN mid ELSE high
       IN  BinLoop(U, u, lo2, hi2, (lo2 + hi2) \div 2)
  ELSE mid
\* first mid: int(round((low+high)/2 + tol)) = ceil((low+high)/2)
FindSpanBinary(p, U, nc, u) ==
  IF u = At(U, nc) THEN nc - 1 ELSE BinLoop(U, u, p, nc, (p + nc + 1) \div 2)

\* --- utilities of geomdl.knotvector -------------------------------------
Linspace(a, b, num) ==
  IF a = b THEN <<a>> ELSE
  IF num > 1 THEN TLCEval([x \in 1..num |-> RAdd(a, RDiv(RMul(RI(x - 1), RSub(b, a)), RI(num - 1)))])
  ELSE <<a>>
GenerateKV(p, nc, clamped) ==
  IF clamped THEN Rep(Zero, p) \o Linspace(Zero, One, nc - (p + 1) + 2) \o Rep(One, p)
  ELSE Linspace(Zero, One, p + nc - 1 + 2)
NormalizeKV(U) ==
  TLCEval([i \in 1..Len(U) |-> RDiv(RSub(U[i], U[1]), RSub(Last(U), U[1]))])
CheckKV(p, U, nc) == Len(U) = p + nc + 1 /\ ValidKV(U)
AffineKV(U, a, b) == TLCEval([i \in 1..Len(U) |-> RAdd(RMul(a, U[i]), b)])

\* --- lattice of clamped knot vectors ------------------------------------
\* vals: increasing sequence of interior knot values; pat[i] = multiplicity
MkClamped(p, vals, pat) ==
  Rep(Zero, p + 1) \o FlattenSeq([i \in 1..Len(vals) |-> Rep(vals[i], pat[i])]) \o Rep(One, p + 1)
Patterns(p, vals, maxTotal) ==
  {pat \in [1..Len(vals) -> 0..p] : SumInts(pat) <= maxTotal}
\* distinct breakpoints in increasing order
RECURSIVE SortedRats(_)
SortedRats(S) == IF S = {} THEN <<>> ELSE
   LET m == CHOOSE x \in S : \A y \in S : RLe(x, y) IN <<m>> \o SortedRats(S \ {m})
BreakSeq(U) == SortedRats(Breaks(U))
\* non-empty spans of the domain [U_p, U_nc] as pairs <<a,b>>
DomainSpans(p, U) ==
  LET B == BreakSeq(U) lo == DomLo(p, U) hi == DomHi(p, U) IN
  {<<B[i], B[i + 1]>> : i \in {j \in 1..(Len(B) - 1) : RLe(lo, B[j]) /\ RLe(B[j + 1], hi)}}
\* q+1 equally spaced parameters in every non-empty span, plus the domain end
SpanSamples(p, U, q) ==
  UNION {{RAdd(ab[1], RMul(R(j, q + 1), RSub(ab[2], ab[1]))) : j \in 0..q} : ab \in DomainSpans(p, U)}
    \cup {DomHi(p, U)}
=============================================================================
